"""Replay behaviours of spec/core/Geoh5Core.tla through the public geoh5py API on real .geoh5 files.

After EVERY action the harness compares, with the state TLC computed:
  * the outcome (ok / refused; the class for the closed-file error),
  * the live projection (entities in memory, their parent pointer, name, allow_delete, value token,
    children sets, property groups) obtained through public getters,
  * an independent raw-h5py snapshot of the file (flat nodes, child links resolved by object address,
    attributes, data values, property-group blocks),
and evaluates implementation-level oracles that do not depend on the model: per-node digests outside the
action's footprint (C09), layout rules on every closed file (C02), live tree before close == tree of a
fresh reader (C01), zero open HDF5 identifiers after close (C11).

GC schedule: the interpreter's cyclic collector is disabled; the harness keeps one hidden strong reference
per entity the model considers alive and drops it exactly when the model's Collect (or the in-call collect of
RemoveViaWorkspace) lets it die, then calls gc.collect() and checks that the weak reference is dead."""
from __future__ import annotations

import gc
import os
import uuid

import numpy as np

from . import h5snap
from .pool import scratch

CONT = ("Groups", "Objects", "Data")
SPECIAL = ("Visual Parameters", "UserComments", "file.dat")   # data children whose content is not modelled as a token


class Divergence(Exception):
    def __init__(self, sig, msg, prop=None):
        super().__init__(msg)
        self.sig, self.msg, self.prop = sig, msg, prop


class _Abort(Exception):
    pass


_NM = {}      # name tokens of the specification -> names used in this behaviour (a refinement parameter, set per replay)


def nm(n):
    return _NM.get(n, n)


def kind(slot):
    slot = int(slot)
    if slot == 0:
        return "R"
    return "G" if slot < 11 else "O" if slot < 21 else "D" if slot < 31 else "P"


GROUP_CLASSES = ["ContainerGroup", "SimPEGGroup", "GiftoolsGroup", "UIJsonGroup", "AirborneTheme", "GeophysicsTheme"]
# Drillhole is left out on purpose: it refuses a second data set with an existing name (class-specific rule; C18 covers it)
OBJECT_CLASSES = ["Points", "Curve", "Surface", "Grid2D", "BlockModel", "Label", "Octree", "NoTypeObject"]


def _object_kwargs(cls_name):
    if cls_name in ("Points",):
        return {"vertices": np.array([[0.0, 0, 0], [1.0, 2, 3]])}
    if cls_name == "Curve":
        return {"vertices": np.array([[0.0, 0, 0], [1.0, 2, 3]])}
    if cls_name == "Surface":
        return {"vertices": np.array([[0.0, 0, 0], [1.0, 2, 3], [1, 0, 0], [2.0, 2, 2]]),
                "cells": np.array([[0, 1, 2], [1, 2, 3]])}
    if cls_name == "Grid2D":
        return {"u_count": 2, "v_count": 1, "u_cell_size": 1.0, "v_cell_size": 2.0, "origin": [0, 0, 0]}
    if cls_name == "BlockModel":
        return {"u_cell_delimiters": np.array([0.0, 1, 2]), "v_cell_delimiters": np.array([0.0, 1]),
                "z_cell_delimiters": np.array([0.0, 1]), "origin": [0, 0, 0]}
    if cls_name == "Octree":
        return {"u_count": 2, "v_count": 1, "w_count": 1, "origin": [0, 0, 0],
                "u_cell_size": 1.0, "v_cell_size": 2.0, "w_cell_size": 3.0}
    if cls_name == "Drillhole":
        return {"collar": [0.0, 0, 0], "surveys": np.array([[0.0, 0, -90], [10, 0, -90]])}
    return {}


GEOM = ("vertices", "cells", "origin", "rotation", "dip", "u_cell_size", "v_cell_size", "w_cell_size", "u_count", "v_count",
        "w_count", "u_cell_delimiters", "v_cell_delimiters", "z_cell_delimiters", "centroids", "n_cells", "n_vertices")


def _geom(e):
    """digest of an object's geometry through its public getters (C01: geometry arrays; C12: a copy equals its source)"""
    out = []
    for name in GEOM:
        if not hasattr(type(e), name):
            continue
        try:
            v = getattr(e, name)
        except Exception as exc:  # pylint: disable=broad-except
            out.append((name, "raises " + type(exc).__name__))
            continue
        if v is None:
            out.append((name, None))
        else:
            arr = np.asarray(v)
            if arr.dtype.names:
                arr = np.array(arr.tolist(), dtype=float)
            out.append((name, tuple(np.round(arr.astype(float), 6).ravel().tolist())))
    return tuple(out)


# every fixture object carries 2 values per data set, so that data can be copied or moved between any two objects
N_VALUES = {"Points": 2, "Curve": 2, "Surface": 2, "Grid2D": 2, "BlockModel": 2, "Octree": 2, "Drillhole": 2,
            "Label": 2, "NoTypeObject": 2}
ASSOC = {"Points": "VERTEX", "Curve": "VERTEX", "Surface": "CELL", "Grid2D": "CELL", "BlockModel": "CELL",
         "Octree": "CELL", "Drillhole": "OBJECT", "Label": "OBJECT", "NoTypeObject": "OBJECT"}


class World:
    """One replayed behaviour: a workspace file + the binding of model slots to real entities."""

    def __init__(self, tag, variant=0):
        self.dir = scratch()
        self.path = os.path.join(self.dir, f"w_{tag}.geoh5")
        if os.path.exists(self.path):
            os.remove(self.path)
        from geoh5py import Workspace
        self.Workspace = Workspace
        self.ws = Workspace.create(self.path)
        self.variant = variant
        self.slot2uid = {}
        self.side = {}  # slot -> strong reference to the entity object (hidden handle)
        self.pg2uid = {}
        self.closed_tree = None
        self.root_uid = self.ws.root.uid
        self.obj_class = {}
        # data kind of the behaviour (refinement parameter, like the entity classes)
        self.dkind = ["float", "int", "text", "bool", "float", "int"][(variant // 8) % 6]
        self.ws2 = None
        self.path2 = self.path.replace(".geoh5", "_ws2.geoh5")
        self.w2uid = {}
        self.w2side = {}
        self.w2pguid = {}

    # ------------------------------------------------------------------ binding
    def ent(self, slot):
        slot = int(slot)
        if slot == 0:
            return self.ws.root
        return self.side[slot]

    def slot_of(self, uid):
        if uid == self.root_uid:
            return 0
        for s, u in self.slot2uid.items():
            if u == uid:
                return s
        return f"?{uid}"

    def pgslot_of(self, uid):
        for s, u in self.pg2uid.items():
            if u == uid:
                return s
        return f"?{uid}"

    def bind(self, slot, entity):
        self.slot2uid[int(slot)] = entity.uid
        self.side[int(slot)] = entity

    def token(self, values):
        """value token of a data array (float / integer / boolean / text kinds; the kind is a refinement parameter)"""
        if values is None:
            return None
        if isinstance(values, bytes):
            return "blob"
        if isinstance(values, str):
            values = [values]
        arr = np.asarray(values).ravel()
        if arr.size == 0:
            return None
        if arr.dtype.kind in "USO":
            items = [x.decode("utf-8", "replace") if isinstance(x, bytes) else str(x) for x in arr.tolist()]
            if items[0].startswith("<") or not items[0].startswith("t"):
                return "text"
            try:
                tok = int(items[0][1:].split("_")[0])
            except ValueError:
                return f"garbled:{items}"
            return tok if items == [f"t{tok}_{i}" for i in range(len(items))] else f"garbled:{items}"
        if arr.dtype.kind == "b" or (self.dkind == "bool" and arr.dtype.kind in "iu" and set(arr.tolist()) <= {0, 1}):
            flags = [bool(x) for x in arr.tolist()]
            tok = 2 if flags[0] else 1
            return tok if flags == [(i + tok) % 2 == 0 for i in range(len(flags))] else f"garbled:{flags}"
        if arr.dtype.kind in "iu":
            base = int(arr[0])
            if arr.tolist() != [base + i for i in range(arr.size)] or base % 10:
                return f"garbled:{arr.tolist()}"
            return base // 10
        arr = arr.astype(float)
        if np.isnan(arr[0]):
            return None
        base = arr[0]
        if not np.allclose(arr, base + 0.25 * np.arange(arr.size)):
            return f"garbled:{arr.tolist()}"
        return int(round(base))

    @staticmethod
    def n_values(o):
        assoc = ASSOC.get(type(o).__name__, "OBJECT")
        return {"VERTEX": getattr(o, "n_vertices", None), "CELL": getattr(o, "n_cells", None)}.get(assoc) or 2

    def values(self, tok, n, kind_=None):
        kind_ = kind_ or self.dkind
        if kind_ == "int":
            return (int(tok) * 10 + np.arange(n)).astype("int32")
        if kind_ == "text":
            return np.array([f"t{tok}_{i}" for i in range(n)])
        if kind_ == "bool":
            return np.array([(i + int(tok)) % 2 == 0 for i in range(n)], dtype=bool)
        return float(tok) + 0.25 * np.arange(n)

    # ------------------------------------------------------------------ actions
    def group_class(self, slot):
        from geoh5py import groups
        return getattr(groups, GROUP_CLASSES[(self.variant + int(slot)) % len(GROUP_CLASSES)])

    def object_class(self, slot):
        from geoh5py import objects
        # one object class per behaviour (so that data can be copied / moved between its objects)
        return getattr(objects, OBJECT_CLASSES[self.variant % len(OBJECT_CLASSES)])

    def apply(self, lab, pre, post):
        act, a = lab["act"], lab["args"]
        ws = self.ws
        if act in ("CreateGroup", "CreateObject", "CreateWithUid"):
            s = int(a["s"])
            kw = {"name": nm(a["n"]), "parent": self.ent(a["p"])}
            if act == "CreateWithUid":
                kw["uid"] = self.slot2uid.get(s) or uuid.uuid4()
                if self.variant % 3 == 1:
                    kw["uid"] = str(kw["uid"])        # identifiers may be given as text
            if kind(s) == "G":
                e = self.group_class(s).create(ws, **kw)
            else:
                cls = self.object_class(s)
                geo = _object_kwargs(cls.__name__)
                kw.update(geo)
                e = cls.create(ws, **kw)
                # the caller's arrays stay the caller's: re-using a buffer afterwards must not reach the entity
                for arr in geo.values():
                    if isinstance(arr, np.ndarray) and arr.dtype.kind == "f":
                        arr += 1000.0
            self.bind(s, e)
        elif act == "CreateDeferred":
            e = ws.create_entity(self.group_class(a["s"]), save_on_creation=False,
                                 entity={"name": nm(a["n"]), "parent": self.ent(a["p"])})
            self.bind(a["s"], e)
        elif act == "ScrubData":
            o = self.ent(a["o"])
            ds = [self.ent(d) for d in sorted(a["ds"])]
            if self.variant % 2:
                ds = ds[::-1]      # the order of the list must not matter
            o.remove_data_from_groups(ds)
        elif act == "AddData":
            o = self.ent(a["p"])
            cname = type(o).__name__
            assoc = ASSOC.get(cname, "OBJECT")
            n = {"VERTEX": getattr(o, "n_vertices", None), "CELL": getattr(o, "n_cells", None)}.get(assoc) or 2
            spec = {"values": self.values(a["v"], n), "association": assoc}
            others = [d for s2, d in self.side.items() if kind(s2) == "D" and getattr(d, "association", None) is not None
                      and d.name not in SPECIAL]
            del others   # (types are shared through SetType and copies, as the specification says)
            e = o.add_data({nm(a["n"]): spec})
            self.bind(a["s"], e)
        elif act == "AddDataRefused":
            o = self.ent(a["p"])
            o.add_data({nm(a["n"]): {"values": self.values(1, self.n_values(o)), "association": "NO-SUCH-ASSOCIATION"}})
        elif act == "AddDataLike":
            o = self.ent(a["p"])
            like = self.ent(a["e"])
            assoc = ASSOC.get(type(o).__name__, "OBJECT")
            prim = like.entity_type.primitive_type
            kd = {"FLOAT": "float", "INTEGER": "int", "TEXT": "text", "BOOLEAN": "bool"}.get(getattr(prim, "name", str(prim)), self.dkind)
            spec = {"values": self.values(a["v"], self.n_values(o), kd), "association": assoc,
                    "entity_type": {"uid": like.entity_type.uid if self.variant % 2 else str(like.entity_type.uid),
                                    "primitive_type": getattr(prim, "name", str(prim)),
                                    "number_of_bins": 25, "units": "unit-x", "description": "joined"}}
            e = o.add_data({nm(a["n"]): spec})
            self.bind(a["s"], e)
        elif act == "AddComment":
            o = self.ent(a["p"])
            o.add_comment(f"comment {len(o.comments.values) if o.comments is not None else 0}", author="verif")
            if a["first"]:
                self.bind(a["s"], o.comments)
        elif act == "AddFile":
            o = self.ent(a["p"])
            e = o.add_file(b"\x00\x01binary\xffpayload", name="file.dat")
            self.bind(a["s"], e)
        elif act == "AddVisual":
            o = self.ent(a["p"])
            e = o.add_default_visual_parameters()
            self.bind(a["s"], e)
        elif act == "Rename":
            self.ent(a["s"]).name = nm(a["n"])
        elif act == "SetFlag":
            self.ent(a["s"]).allow_delete = bool(a["b"])
        elif act == "SetVal":
            d = self.ent(a["s"])
            dk = {"FloatData": "float", "IntegerData": "int", "TextData": "text", "BooleanData": "bool"}.get(
                type(d).__name__, self.dkind)
            new = self.values(a["v"], self.n_values(d.parent), dk)
            if self.variant % 4 and d.values is not None:   # edit the array the getter returned, in place, assign it back
                arr = d.values
                arr[:] = new
                d.values = arr
            else:
                d.values = new
        elif act == "SetType":
            self.ent(a["s"]).entity_type = self.ent(a["e"]).entity_type
        elif act == "SetMeta":
            # the setter MERGES into the existing dictionary: keys of earlier assignments stay (live and stored alike)
            self.ent(a["s"]).metadata = {"tok": int(a["v"]), "nested": {"tok": int(a["v"])}, f"k{int(a['v'])}": int(a["v"])}
        elif act in ("Move", "MoveSame"):
            self.ent(a["s"]).parent = self.ent(a["p"])
        elif act == "AddDataFails":
            o = self.ent(a["p"])
            cname = type(o).__name__
            assoc = ASSOC.get(cname, "OBJECT")
            n = {"VERTEX": getattr(o, "n_vertices", None), "CELL": getattr(o, "n_cells", None)}.get(assoc) or 2
            known = {id(e) for e in self.side.values()}
            try:
                # (the data kind of the behaviour: a later SetType only ever joins data of one primitive type)
                o.add_data({nm(a["n"]): {"values": self.values(1, n), "association": assoc}}, compression=10)
            finally:
                new = [c for c in o.children if not _is_pg(c) and id(c) not in known]
                if len(new) == 1:
                    self.bind(a["s"], new[0])
        elif act == "StripOpt":
            import h5py
            with h5py.File(self.path, "r+") as f:
                base = f[list(f)[0]]
                cont = {"G": "Groups", "O": "Objects", "D": "Data"}[kind(a["s"])]
                node = base[cont]["{" + str(self.slot2uid[int(a["s"])]) + "}"]
                for k in ("Partially hidden", "Public"):
                    if k in node.attrs:
                        del node.attrs[k]
        elif act == "SaveAs":
            import hashlib
            new_path = self.path.replace(".geoh5", "_saved.geoh5")
            if os.path.exists(new_path):
                os.remove(new_path)
            ws.save_as(new_path)
            self.side = {}     # handles obtained before save_as belong to the old tree
            gc.collect()
            self.old_path = self.path
            self.old_sha = hashlib.sha256(open(self.old_path, "rb").read()).hexdigest()
            self.path = new_path
            self.rebind()
        elif act == "Helper":
            from geoh5py.shared.utils import fetch_active_workspace
            try:
                with fetch_active_workspace(ws, mode=a["m"]):
                    if a["exc"]:
                        raise _Abort()
            except _Abort:
                pass
            if a["reopened"]:
                self.side = {}
                gc.collect()
        elif act == "AddToGroup":
            o = self.ent(a["o"])
            d_ent = self.ent(a["d"])
            exists = any(g.name == nm(a["n"]) for g in (o.property_groups or []))
            if not exists and self.variant % 3 == 1:
                # the group is made first (default association), members of any association join it afterwards
                pgr = o.find_or_create_property_group(name=nm(a["n"]))
                pgr.add_properties([d_ent])
            else:
                pgr = o.add_data_to_group([d_ent], nm(a["n"]))
            self.pg2uid[int(a["p"])] = pgr.uid
        elif act == "PGWithUid":
            o = self.ent(a["o"])
            u = int(a["u"])
            uid = self.pg2uid[u] if kind(u) == "P" else self.slot2uid[u]
            o.create_property_group(name=nm(a["n"]), uid=uid, properties=[self.ent(a["d"]).uid])
        elif act == "RemoveFromGroup":
            o = self.ent(a["o"])
            pgr = [g for g in (o.property_groups or []) if g.uid == self.pg2uid[int(a["p"])]][0]
            pgr.remove_properties([self.ent(a["d"])])
        elif act == "RemovePG":
            o = self.ent(a["o"])
            pgr = [g for g in (o.property_groups or []) if g.uid == self.pg2uid[int(a["p"])]][0]
            ws.remove_entity(pgr)
            del pgr
        elif act == "RemoveViaWorkspace":
            e = self.ent(a["s"])
            self.drop_dying(pre, post, keep=int(a["s"]))
            ws.remove_entity(e)
            del e
        elif act == "RemoveBlocked":
            e = self.ent(a["s"])
            self.drop_dying(pre, post)
            try:
                ws.remove_entity(e)
            finally:
                del e
        elif act == "OpenAgain":
            import warnings
            with warnings.catch_warnings():
                warnings.simplefilter("ignore")
                same = ws.open() if self.variant % 2 else ws.open(mode=a["m"])
            if same is not ws:
                raise Divergence("open-again-returns-other", "open() on an open workspace did not return the workspace", "C11")
        elif act == "RemovePair":
            c = self.ent(a["c"]) if int(a["c"]) else ws.root
            x, y = int(a["x"]), int(a["y"])
            first = self.ent(x)
            if kind(y) == "P":
                second = [g for g in c.property_groups if g.uid == self.pg2uid[y]][0]
            else:
                second = self.ent(y)
            pair = [first, second] if self.variant % 2 else [second, first]
            del first, second
            c.remove_children(pair)
            del pair
        elif act == "RemoveNotAChild":
            c = self.ent(a["c"])
            x = int(a["x"])
            if kind(x) == "P":
                owner = [e for s2, e in self.side.items() if kind(s2) == "O" and any(
                    g.uid == self.pg2uid[x] for g in (e.property_groups or []))][0]
                target = [g for g in owner.property_groups if g.uid == self.pg2uid[x]][0]
            else:
                target = self.ent(x)
            import warnings
            with warnings.catch_warnings():
                warnings.simplefilter("ignore")
                c.remove_children([target])
            del target
        elif act == "RemoveViaParent":
            e = self.ent(a["s"])
            e.parent.remove_children([e])
            del e
        elif act == "DropRef":
            pass  # the hidden reference is released by the next Collect, exactly as the model says
        elif act == "Collect":
            self.drop_dying(pre, post)
        elif act == "Purge":
            _ = {"G": lambda: ws.groups, "O": lambda: ws.objects, "D": lambda: ws.data}[a["kind"]]()
            del _
        elif act == "LookupDead":
            found = ws.get_entity(self.slot2uid[int(a["s"])])
            if found != [None]:
                raise Divergence("lookup-returns-dead", f"get_entity of a collected entity returned {found}", "C05")
        elif act == "Copy":
            e = self.ent(a["s"])
            if kind(a["s"]) == "D":
                new = e.copy(parent=self.ent(a["p"]))
            else:
                opts = {}
                if self.variant % 3 != 2:
                    opts["name"] = e.name            # an override meant for the copied entity only (here: no change)
                if self.variant % 5 == 1:
                    opts["clear_cache"] = True       # lazily re-loaded afterwards: nothing observable changes
                geo0 = _geom(e) if kind(a["s"]) == "O" else None
                new = e.copy(parent=self.ent(a["p"]), copy_children=bool(a["deep"]), **opts)
                if geo0 is not None and _geom(e) != geo0:
                    raise Divergence("copy-changes-source-geometry",
                                     f"copy (options {sorted(opts)}) changed the source: geometry {geo0} became {_geom(e)}", "C12,C01")
                if kind(a["s"]) == "O" and _geom(new) != _geom(e):
                    raise Divergence("copy-geometry-differs",
                                     f"after copy (options {sorted(opts)}) source geometry {_geom(e)} copy {_geom(new)}", "C12")
            self.bind_copy(int(a["s"]), new, a, pre)
        elif act == "CopyIntoSelf":
            import sys
            limit = sys.getrecursionlimit()
            sys.setrecursionlimit(250)      # an endless recursion is cut short (it creates an entity per level)
            try:
                self.ent(a["s"]).copy(parent=self.ent(a["p"]))
            finally:
                sys.setrecursionlimit(limit)
        elif act == "Copy2":
            self.copy2(a)
        elif act == "Copy2Data":
            src = self.ent(a["s"])
            t = int(a["t"])
            new = src.copy(parent=self.w2side[int(a["y"])])
            gen = (t - 1000) // 100
            if gen == 0 and new.uid != src.uid:
                raise Divergence("copy-other-workspace-uid-not-kept",
                                 f"data slot {a['s']}: the identifier was free in the target workspace but the copy got {new.uid}", "C06")
            if gen == 1 and (new.uid == src.uid or new.uid in self.w2uid.values()):
                raise Divergence("copy-other-workspace-uid-reused",
                                 f"data slot {a['s']}: identifier {new.uid} is already in use in the target workspace", "C06")
            self.w2uid[t] = new.uid
            self.w2side[t] = new
        elif act == "Remove2":
            y = int(a["y"])
            e = self.w2side[y]
            dead = [k for k, v in self.w2side.items() if _under(v, e)]
            for k in dead:
                self.w2side.pop(k)
            self.ws2.remove_entity(e)
            del e
            gc.collect()       # the schedule in which the removed copies are reclaimed before the next operation
        elif act == "Close":
            self.closed_tree = self.live_tree()
            self.closed_dirty = {int(x) for x in pre.get("dirty", [])}
            how = a["how"]
            if how == "close":
                ws.close()
            elif how == "exit":
                ws.__exit__(None, None, None)
            else:
                try:
                    with ws:
                        raise _Abort()
                except _Abort:
                    pass
        elif act == "Open":
            self.reopen(a["m"], bool(a.get("fresh", True)))
        elif act == "CallClosed":
            self.call_closed(a["op"])
        else:
            raise AssertionError(f"unknown action {act}")

    def bind_copy(self, s, new, a, pre):
        """bind the slots the model allocated for the copy (map: source slot -> new slot)."""
        fmap = {int(k): int(v) for k, v in _as_map(a["map"]).items()}
        pmap = {int(k): int(v) for k, v in _as_map(a.get("pmap", {})).items()}

        def walk(src_slot, new_ent):
            self.bind(fmap[src_slot], new_ent)
            src = self.ent(src_slot)
            if kind(src_slot) == "D":
                return
            new_kids = [c for c in new_ent.children if not _is_pg(c)]
            src_kids = [c for c in src.children if not _is_pg(c)]
            wanted = [c for c in src_kids if self.slot_of(c.uid) in fmap and self.slot_of(c.uid) != fmap[src_slot]]
            # children are copied in order; pair them by position among the copied ones
            if len(new_kids) != len(wanted):
                raise Divergence("copy-children-count",
                                 f"copy of slot {src_slot} has {len(new_kids)} children, source has {len(wanted)}", "C12")
            for sc, nc in zip(wanted, new_kids):
                walk(self.slot_of(sc.uid), nc)
            if kind(src_slot) == "O":
                for sp in (src.property_groups or []):
                    ps = self.pgslot_of(sp.uid)
                    if ps in pmap:
                        match = [g for g in (new_ent.property_groups or []) if g.name == sp.name]
                        if len(match) != 1:
                            raise Divergence("copy-pg-missing", f"property group {sp.name} not copied once", "C12")
                        self.pg2uid[pmap[ps]] = match[0].uid

        walk(s, new)

    def ensure_ws2(self):
        if self.ws2 is None:
            if os.path.exists(self.path2):
                os.remove(self.path2)
            self.ws2 = self.Workspace.create(self.path2)
        return self.ws2

    def copy2(self, a):
        """copy into the second workspace and bind the identifiers the model allocated there"""
        ws2 = self.ensure_ws2()
        src = self.ent(a["s"])
        new = src.copy(parent=ws2.root if self.variant % 2 else ws2, copy_children=bool(a["deep"]))
        tmap = {int(k): int(v) for k, v in _as_map(a["map"]).items()}
        pmap = {int(k): int(v) for k, v in _as_map(a.get("pmap", {})).items()}

        def rule(y, new_uid, src_uid, what):
            gen = (y - 1000) // 100
            if gen == 0 and new_uid != src_uid:
                raise Divergence("copy-other-workspace-uid-not-kept",
                                 f"{what}: the identifier {src_uid} was free in the target workspace but the copy got {new_uid}", "C06")
            if gen == 1 and (new_uid == src_uid or new_uid in self.w2uid.values()):
                raise Divergence("copy-other-workspace-uid-reused",
                                 f"{what}: identifier {new_uid} is already in use in the target workspace", "C06")

        def walk(src_slot, src_ent, new_ent):
            y = tmap[src_slot]
            rule(y, new_ent.uid, src_ent.uid, f"copy of slot {src_slot}")
            self.w2uid[y] = new_ent.uid
            self.w2side[y] = new_ent
            if kind(src_slot) == "D":
                return
            new_kids = [c for c in new_ent.children if not _is_pg(c)]
            wanted = [c for c in src_ent.children if not _is_pg(c) and self.slot_of(c.uid) in tmap]
            if len(new_kids) != len(wanted):
                raise Divergence("copy-children-count",
                                 f"copy of slot {src_slot} has {len(new_kids)} children, expected {len(wanted)}", "C12")
            for sc, nc in zip(wanted, new_kids):
                walk(self.slot_of(sc.uid), sc, nc)
            if kind(src_slot) == "O":
                for sp in (src_ent.property_groups or []):
                    ps = self.pgslot_of(sp.uid)
                    if ps in pmap:
                        match = [g for g in (new_ent.property_groups or []) if g.name == sp.name]
                        if len(match) != 1:
                            raise Divergence("copy-pg-missing", f"property group {sp.name} not copied once", "C12")
                        rule(pmap[ps], match[0].uid, sp.uid, f"copy of property group {sp.name}")
                        self.w2pguid[pmap[ps]] = match[0].uid

        walk(int(a["s"]), src, new)

    def project_w2(self):
        if self.ws2 is None:
            return {"w2": {}, "w2pg": {}}
        snap = h5snap.snapshot(self.ws2.geoh5)
        u2y = {str(u): y for y, u in self.w2uid.items()}
        u2y[str(self.ws2.root.uid)] = 1000
        p2r = {str(u): r for r, u in self.w2pguid.items()}
        parent = {}
        for cont in CONT:
            for uid, node in snap["nodes"].get(cont, {}).items():
                for lc, links in node["links"].items():
                    for cu in links:
                        parent.setdefault(cu, []).append(u2y.get(uid, f"?{uid}"))
        out, pgs = {}, {}
        for cont in CONT:
            for uid, node in snap["nodes"].get(cont, {}).items():
                y = u2y.get(uid, f"?{uid}")
                if y == 1000:
                    continue
                val = 0
                if cont == "Data":
                    ds = node["datasets"].get("Data")
                    val = self.token(ds.get("value")) if ds else None
                    if node["attrs"].get("Name") in SPECIAL:
                        val = "vp"
                par = parent.get(uid, [])
                out[str(y)] = {"on": True, "par": par[0] if len(par) == 1 else par, "name": node["attrs"].get("Name"),
                               "flag": bool(node["attrs"].get("Allow delete")), "val": val}
                for pu, attrs in node["pgs"].items():
                    props = attrs.get("Properties", [])
                    if isinstance(props, str):
                        props = [props]
                    pgs[str(p2r.get(pu, f"?{pu}"))] = {"owner": y, "name": attrs.get("Group Name"),
                                                       "props": sorted(str(u2y.get(h5snap._uid(str(x)), "?")) for x in props)}
        return {"w2": out, "w2pg": pgs, "problems": h5snap.wellformed(snap)}

    def drop_dying(self, pre, post, keep=None):
        dying = [int(s) for s in pre["mem"] if pre["mem"][s]["par"] != -1 and post["mem"][s]["par"] == -1]
        self._dying = dying
        for s in dying:
            if s != keep:
                self.side.pop(s, None)
        gc.collect()

    def check_dead(self, post):
        """every entity the model let die (unreachable from the root and from held handles) must really be gone:
        a removed entity that stays alive stays in the workspace listings (C05)."""
        names = self.ws.list_entities_name if self.ws._geoh5 else {}
        for s in getattr(self, "_dying", []):
            uid = self.slot2uid.get(s)
            if uid in names:
                self._dying = []
                raise Divergence("removed-entity-still-alive",
                                 f"slot {s} is unreachable from the root and from every handle the caller holds, but after "
                                 f"gc.collect() it is still listed by the workspace", "C01,C05,C06")
        self._dying = []

    def reopen(self, mode, fresh=True):
        self.side = {}
        gc.collect()
        if fresh:
            self.ws = self.Workspace(self.path, mode=mode)
        else:
            self.ws.open(mode=mode)
        self.rebind()
        if self.closed_tree is not None:
            now = self.live_tree()
            if now != self.closed_tree:
                raise Divergence(_reopen_signature(self.closed_tree, now, getattr(self, "closed_dirty", set())),
                                 f"tree before close {self.closed_tree} != tree after re-open {now}", "C01")

    def rebind(self):
        self.root_uid = self.ws.root.uid
        stack = [self.ws.root]
        seen = set()
        while stack:
            e = stack.pop()
            if id(e) in seen:
                continue
            seen.add(id(e))
            s = self.slot_of(e.uid)
            if isinstance(s, int) and s != 0:
                self.side[s] = e
            for c in getattr(e, "children", []) or []:
                if not _is_pg(c):
                    stack.append(c)

    def call_closed(self, op):
        from geoh5py.groups import ContainerGroup
        ws = self.ws
        data = [e for s, e in self.side.items() if kind(s) == "D"]
        ents = [e for s, e in self.side.items()]
        if op == "values" and data:
            data[0].values = data[0].values       # re-assigning needs the file
        elif op == "rename" and ents:
            ents[0].name = "zz"
        elif op == "remove" and [e for e in ents if e.allow_delete]:
            ws.remove_entity([e for e in ents if e.allow_delete][0])
        elif op == "listing":
            ws.fetch_children(ws.root)
        else:
            ContainerGroup.create(ws, name="late")

    # ------------------------------------------------------------------ projections
    def live_tree(self):
        """attached tree through public getters: {slot: (class, parent, name, flag, val, pgs)}"""
        out = {}
        stack = [(self.ws.root, 0)]
        while stack:
            e, ps = stack.pop()
            for c in e.children:
                if _is_pg(c):
                    continue
                s = self.slot_of(c.uid)
                val = self.token(c.values) if kind(s) == "D" or hasattr(c, "association") else 0
                if c.name in SPECIAL:
                    val = "vp"
                pgs = sorted((g.name, sorted(str(self.slot_of(u)) for u in (g.properties or [])))
                             for g in (getattr(c, "property_groups", None) or []))
                key = str(s)
                if key in out:
                    key = key + "#dup"
                out[key] = (type(c).__name__, ps, c.name, bool(c.allow_delete), val, pgs,
                            _geom(c) if kind(s) == "O" else ())
                if hasattr(c, "children"):
                    stack.append((c, s))
        return out

    def project_live(self):
        mem, kids, pgs = {}, {}, {}
        ents = dict(self.side)
        for s, e in ents.items():
            par = e.parent
            mem[str(s)] = {"par": self.slot_of(par.uid) if par is not None else -1, "name": e.name,
                           "flag": bool(e.allow_delete),
                           "val": ("vp" if e.name in SPECIAL else self.token(e.values)) if kind(s) == "D" else 0,
                           "meta": _meta_token(e.metadata) if kind(s) in "GO" else 0}
        conts = {0: self.ws.root}
        conts.update({s: e for s, e in ents.items() if kind(s) in "GO"})
        for s, e in conts.items():
            kids[str(s)] = sorted(str(self.slot_of(c.uid)) for c in e.children if not _is_pg(c))
            if kind(s) == "O":
                for g in (e.property_groups or []):
                    pgs[str(self.pgslot_of(g.uid))] = {"owner": s, "name": g.name,
                                                      "props": sorted(str(self.slot_of(u)) for u in (g.properties or []))}
        for s, e in conts.items():
            if kind(s) == "O":
                vp = e.visual_parameters
                if vp is not None and not any(vp is c for c in e.children):
                    raise Divergence("visual-parameters-of-another-object",
                                     f"object in slot {s} refers to visual parameters that are not among its children "
                                     f"(they belong to slot {self.slot_of(vp.parent.uid)})", "C12,C09")
        try:    # the listing of property groups works at any time (also after some of them were removed and collected)
            listed = {g.uid for g in self.ws.property_groups}
        except Exception as exc:  # pylint: disable=broad-except
            raise Divergence("property-group-listing-raises", f"ws.property_groups raised {type(exc).__name__}: {exc}", "C05,C01")
        live_pgs = {g.uid for e in conts.values() if kind(self.slot_of(e.uid)) == "O" for g in (e.property_groups or [])}
        if not live_pgs <= listed:
            raise Divergence("property-group-not-listed", f"ws.property_groups misses {len(live_pgs - listed)} property group(s) "
                             f"of live objects", "C05,C06")
        live_reg = set()
        names = self.ws.list_entities_name
        pg_uids = set(self.ws.list_property_groups_name)
        for uid in names:
            if uid == self.root_uid or uid in pg_uids:
                continue
            live_reg.add(str(self.slot_of(uid)))
        stored = getattr(self, "_stored_meta", None)
        if stored is not None:
            import json as _json
            dirty = {str(x) for x in getattr(self, "_dirty_now", [])}
            for s, e in conts.items():
                if s == 0 or str(s) in dirty or str(s) not in self._stored_slots or e not in getattr(e.parent, "children", []):
                    continue
                live_md = e.metadata or None
                live_md = _json.loads(_json.dumps(live_md, default=str)) if live_md else None
                if (stored.get(str(s)) or None) != live_md:
                    raise Divergence("metadata-live-differs-from-stored",
                                     f"slot {s}: live metadata {live_md} but the file holds {stored.get(str(s))}", "C01,C09,C12")
        tys = {}
        for s, e in ents.items():
            if kind(s) == "D" and e.name not in SPECIAL:
                tys.setdefault(str(e.entity_type.uid), []).append(str(s))
        return {"mem": mem, "kids": kids, "pg": pgs, "reg_live": sorted(live_reg),
                "types": sorted(sorted(v) for v in tys.values())}

    def type_rules(self, snap):
        """C06: all groups / objects of one class share a single type node; a type identifier occurs in one
        type container only."""
        per_class = {}
        for s, e in self.side.items():
            if kind(s) not in "GO":
                continue
            cont = "Groups" if kind(s) == "G" else "Objects"
            node = snap["nodes"].get(cont, {}).get(str(self.slot2uid.get(s)))
            if node and node["type"] and node["type"]["owners"]:
                per_class.setdefault(type(e).__name__, set()).update(u for _, u in node["type"]["owners"])
        for cls, uids in per_class.items():
            if len(uids) > 1:
                return f"entities of class {cls} use {len(uids)} different types {sorted(uids)}"
        seen = {}
        for tk, tnodes in snap.get("types", {}).items():
            for uid in tnodes:
                if uid in seen:
                    return f"type identifier {uid} occurs under {seen[uid]} and {tk}"
                seen[uid] = tk
        return None

    def check_saved_original(self):
        """after save_as the original file must never change again and the workspace must work on the new file"""
        if getattr(self, "old_sha", None) is None:
            return None
        import hashlib
        if hashlib.sha256(open(self.old_path, "rb").read()).hexdigest() != self.old_sha:
            return "the file the workspace was saved from changed after save_as"
        if str(self.ws.h5file) != str(self.path):
            return f"after save_as the workspace works on {self.ws.h5file}"
        return None

    def snap(self):
        if self.ws._geoh5:  # pylint: disable=protected-access
            return h5snap.snapshot(self.ws.geoh5)
        return h5snap.snapshot(self.path)

    def project_file(self, snap):
        u2s = {str(u): s for s, u in self.slot2uid.items()}
        u2s[str(self.root_uid)] = 0
        p2s = {str(u): s for s, u in self.pg2uid.items()}

        def sl(uid):
            return u2s.get(uid, f"?{uid}")

        fnode, flink, fpg = {}, set(), {}
        tys = {}
        self._stored_meta = {}
        self._stored_slots = set()
        for cont in CONT:
            for uid, node in snap["nodes"].get(cont, {}).items():
                s = sl(uid)
                val = 0
                if cont == "Data" and node["attrs"].get("Name") not in SPECIAL:
                    tys.setdefault(str((node["type"] or {}).get("id")), []).append(str(s))
                if cont == "Data":
                    ds = node["datasets"].get("Data")
                    val = self.token(ds.get("value")) if ds else None
                    if node["attrs"].get("Name") in SPECIAL:
                        val = "vp"
                if s != 0:
                    meta = 0
                    self._stored_slots.add(str(s))
                    if cont != "Data" and "Metadata" in node["datasets"]:
                        import json as _json
                        try:
                            raw = node["datasets"]["Metadata"].get("value")
                            if isinstance(raw, list) and len(raw) == 1:
                                raw = raw[0]
                            parsed = _json.loads(raw)
                            meta = _meta_token(parsed)
                            self._stored_meta[str(s)] = parsed
                        except (TypeError, ValueError):
                            meta = "unparsable"
                    fnode[str(s)] = {"on": True, "name": node["attrs"].get("Name"), "meta": meta,
                                     "flag": bool(node["attrs"].get("Allow delete")), "val": val,
                                     "cont": cont,
                                     "opt": "Partially hidden" in node["attrs"] and "Public" in node["attrs"]}
                for lc, links in node["links"].items():
                    for cu in links:
                        flink.add((str(s), str(sl(cu))))
                for pu, attrs in node["pgs"].items():
                    props = attrs.get("Properties", [])
                    if isinstance(props, str):
                        props = [props]
                    fpg[str(p2s.get(pu, f"?{pu}"))] = {"owner": s, "name": attrs.get("Group Name"),
                                                      "props": sorted(str(sl(h5snap._uid(str(x)))) for x in props)}
        return {"fnode": fnode, "flink": sorted(flink), "fpg": fpg, "types": sorted(sorted(v) for v in tys.values())}


def _meta_token(md):
    if not md:
        return 0
    if not isinstance(md, dict) or md.get("tok") != (md.get("nested") or {}).get("tok"):
        return f"garbled:{md}"
    return md.get("tok", 0)


def _is_pg(c):
    return type(c).__name__.endswith("PropertyGroup")


def _as_map(m):
    """ToJson of a TLA+ function: dict (string keys) or list (domain 1..n)."""
    if isinstance(m, dict):
        return m
    return {str(i + 1): v for i, v in enumerate(m)}


# ---------------------------------------------------------------------- expected projections from the model
def _val(s, r):
    if kind(s) != "D":
        return 0
    if r["name"] in SPECIAL:
        return "vp"            # the XML text of visual parameters is not modelled
    return r["val"] if r["val"] != 0 else None     # token 0 = a data node without values (failed write)


def expect_live(st):
    mem = {s: {"par": r["par"], "name": nm(r["name"]), "flag": r["flag"], "val": _val(s, r), "meta": r["meta"]}
           for s, r in st["mem"].items() if r["par"] != -1}
    kids = {c: sorted(str(x) for x in v) for c, v in st["kids"].items() if c == "0" or st["mem"][c]["par"] != -1}
    pgs = {p: {"owner": r["owner"], "name": nm(r["name"]), "props": sorted(str(x) for x in r["props"])}
           for p, r in st["pg"].items() if r["owner"] != -1}
    return {"mem": mem, "kids": kids, "pg": pgs, "reg_live": sorted(mem), "types": _partition(st["mem"], lambda r: r["par"] != -1)}


def expect_file(st):
    fnode = {s: {"on": True, "name": nm(r["name"]), "flag": r["flag"], "val": _val(s, r), "meta": r["meta"],
                 "cont": {"G": "Groups", "O": "Objects", "D": "Data"}[kind(s)], "opt": st["fopt"][s]}
             for s, r in st["fnode"].items() if r["on"]}
    flink = sorted((str(a), str(b)) for a, b in st["flink"])
    fpg = {p: {"owner": r["owner"], "name": nm(r["name"]), "props": sorted(str(x) for x in r["props"])}
           for p, r in st["fpg"].items() if r["owner"] != -1}
    return {"fnode": fnode, "flink": flink, "fpg": fpg, "types": _partition(st["fnode"], lambda r: r["on"])}


def _partition(table, present):
    """data slots grouped by the type token of the specification (special children have fixed types)"""
    groups = {}
    for s, r in table.items():
        if kind(s) == "D" and present(r) and r["name"] not in SPECIAL:
            groups.setdefault(r["ty"], []).append(str(s))
    return sorted(sorted(v) for v in groups.values())


def expect_w2(st):
    w2 = {y: {"on": True, "par": r["par"], "name": nm(r["name"]), "flag": r["flag"],
              "val": ("vp" if r["name"] in SPECIAL else (r["val"] if r["val"] != 0 else None)) if kind(int(y) % 100) == "D" else 0}
          for y, r in _as_map(st.get("w2", {})).items()}
    pgs = {r: {"owner": g["owner"], "name": nm(g["name"]), "props": sorted(str(x) for x in g["props"])}
           for r, g in _as_map(st.get("w2pg", {})).items()}
    return {"w2": w2, "w2pg": pgs}


def _attached(ent, root):
    seen = 0
    while ent is not None and seen < 50:
        if ent is root:
            return True
        ent = getattr(ent, "parent", None)
        seen += 1
    return False


def _under(ent, top):
    while ent is not None:
        if ent is top:
            return True
        ent = getattr(ent, "parent", None)
    return False


def model_orphans(st):
    reach = {0}
    links = [(int(a), int(b)) for a, b in st["flink"]]
    grow = True
    while grow:
        grow = False
        for a, b in links:
            if a in reach and b not in reach:
                reach.add(b)
                grow = True
    return {int(s) for s, r in st["fnode"].items() if r["on"] and int(s) not in reach}


def first_diff(exp, got, path=""):
    if isinstance(exp, dict) and isinstance(got, dict):
        for k in sorted(set(exp) | set(got), key=str):
            if k not in exp:
                return f"{path}/{k}: unexpected {got[k]!r}"
            if k not in got:
                return f"{path}/{k}: missing (expected {exp[k]!r})"
            d = first_diff(exp[k], got[k], f"{path}/{k}")
            if d:
                return d
        return None
    if isinstance(exp, (list, tuple)) and isinstance(got, (list, tuple)):
        if [list(x) if isinstance(x, tuple) else x for x in exp] != [list(x) if isinstance(x, tuple) else x for x in got]:
            return f"{path}: expected {exp!r} got {got!r}"
        return None
    if exp != got:
        return f"{path}: expected {exp!r} got {got!r}"
    return None


# ---------------------------------------------------------------------- one behaviour
def replay_path(item):
    """item = {"id":…, "variant": int, "init": state, "steps": [(label, post_state)], "prop": "Cxx"}.
    Returns a list of violation dicts."""
    gc.disable()
    from .tlc import MachineryError
    viol = []
    steps = item["steps"]
    w = World(f"{os.getpid()}_{item['id']}", item.get("variant", 0))
    # names are arbitrary text: in some variants one name token stands for the name of the project itself
    _NM.clear()
    if item.get("variant", 0) % 7 == 3:
        _NM["b"] = w.ws.name
    elif item.get("variant", 0) % 7 == 5:
        _NM["a"] = w.ws.name
    pre = item["init"]
    done = []
    known_orphans = 0
    last_snap = None

    def bad(sig, msg, prop=None):
        viol.append({"signature": sig, "summary": f"{msg} | after {done}", "prop": prop,
                     "case": {"variant": item.get("variant", 0), "init": item["init"], "steps": steps[:len(done)],
                              "prop": item.get("prop")}})

    try:
        for lab, post in steps:
            done.append(_fmt(lab))
            before = None
            if pre["mode"] != "closed":
                snap0 = last_snap if last_snap is not None else w.snap()
                before = h5snap.node_digests(snap0)
                w._foot_types = set()
                for fs in lab["foot"]:
                    fu = w.slot2uid.get(int(fs))
                    node = snap0["nodes"].get("Data", {}).get(str(fu)) if fu else None
                    if node and node["type"]:
                        w._foot_types |= {u for _, u in node["type"]["owners"]}
            out = "ok"
            err = ""
            try:
                w.apply(lab, pre, post)
            except Divergence as d:
                bad(d.sig, d.msg, d.prop)
                return viol
            except MachineryError:
                raise
            except _Abort:
                raise
            except BaseException as exc:  # pylint: disable=broad-except
                out = type(exc).__name__
                err = f"{type(exc).__name__}: {exc}"[:300]
            exp_out = lab["out"]
            if (out == "ok") != (exp_out == "ok"):
                bad(f"outcome:{lab['act']}:{'unexpected-' + out if exp_out == 'ok' else 'accepted-instead-of-' + exp_out}",
                    f"{lab['act']} expected {exp_out} got {out} {err} [classes variant {w.variant}]")
                return viol
            if exp_out == "Geoh5FileClosedError" and out != exp_out:
                bad("closed-call-wrong-error", f"call on a closed workspace raised {out}", "C11")
                return viol
            try:
                w.check_dead(post)
            except Divergence as d:
                bad(d.sig, d.msg, d.prop)
                return viol
            # ---- file
            snap = w.snap()
            got_f = w.project_file(snap)
            d = first_diff(expect_file(post), got_f)
            if d:
                bad(f"file:{lab['act']}:{_field(d)}", f"file differs from the specification: {d}")
                return viol
            if post["mode"] != "closed":
                d = w.type_rules(snap)
                if d:
                    bad("type-sharing", d, "C06")
                    return viol
            # ---- second workspace (target of cross-workspace copies)
            if w.ws2 is not None:
                got2 = w.project_w2()
                probs2 = got2.pop("problems")
                d = first_diff(expect_w2(post), got2)
                if d:
                    bad(f"other-workspace:{lab['act']}:{_field(d)}", f"target workspace differs from the specification: {d}", "C12,C06,C02")
                    return viol
                if probs2:
                    bad("layout-other-workspace:" + _layout_kind(probs2[0]), f"target file is not valid: {probs2[:3]}", "C02")
                    return viol
            # ---- live
            if post["mode"] != "closed":
                try:
                    w._dirty_now = post.get("dirty", [])  # pylint: disable=protected-access
                    got_l = w.project_live()
                except Divergence as dv:
                    bad(dv.sig, dv.msg, dv.prop)
                    return viol
                d = first_diff(expect_live(post), got_l)
                if d:
                    bad(f"live:{lab['act']}:{_field(d)}", f"live workspace differs from the specification: {d}")
                    return viol
                if w.ws.geoh5.mode != post["mode"]:
                    bad("handle-mode", f"handle mode {w.ws.geoh5.mode} expected {post['mode']}", "C10")
            # ---- footprint (C09), on the implementation
            if before is not None and lab["act"] not in ("Close", "StripOpt", "SaveAs"):
                after = h5snap.node_digests(snap)
                d = _footprint(w, before, after, lab, pre)
                if d:
                    bad(f"footprint:{lab['act']}", d, "C09")
                    return viol
            if lab["act"] == "Close" and before is not None and not lab["foot"]:
                after = h5snap.node_digests(snap)
                if after != before:
                    bad("close-changes-file", f"close changed {_changed(before, after)}", "C09")
            # ---- closed file: handles released (C11), layout (C02)
            d = w.check_saved_original()
            if d:
                bad("save-as-original-disturbed", d, "C11")
                return viol
            if post["mode"] == "closed" and w.ws._geoh5:  # pylint: disable=protected-access
                bad("handle-open-when-closed", f"after {lab['act']} the specification says closed, the handle is open "
                    f"in mode {w.ws.geoh5.mode}", "C11")
                return viol
            if post["mode"] == "closed" and lab["act"] in ("Close", "Helper"):
                n_open = _open_ids(w.path)
                if n_open:
                    bad("open-handles-after-close", f"{n_open} HDF5 identifiers still open after close", "C11")
                orph = model_orphans(post)
                allow = {(c, str(w.slot2uid[s])) for s in orph for c in CONT if s in w.slot2uid}
                probs = h5snap.wellformed(snap, allow_unreachable=allow)
                if probs:
                    bad("layout:" + _layout_kind(probs[0]), f"closed file is not a valid geoh5 file: {probs[:3]}", "C02")
                    return viol
                if orph:
                    known_orphans += 1
                    viol.append({"signature": "orphan-node-after-remove-via-parent",
                                 "summary": f"unreachable flat nodes {sorted(orph)} left in the closed file | after {done}",
                                 "prop": "C02,C05", "case": None})
            pre = post
            last_snap = snap if post["mode"] != "closed" else None
        # ---- end of behaviour: close, open with a fresh reader, compare (C01, C02, C11)
        if pre["mode"] != "closed":
            tree = w.live_tree()
            w.ws.close()
            snap = h5snap.snapshot(w.path)
            orph = model_orphans(pre)
            allow = {(c, str(w.slot2uid[s])) for s in orph for c in CONT if s in w.slot2uid}
            extra_orph = pre["mode"] == "r+" and _purged_groups(pre)
            probs = h5snap.wellformed(snap, allow_unreachable=allow)
            if probs:
                bad("layout:" + _layout_kind(probs[0]), f"final file is not a valid geoh5 file: {probs[:3]}", "C02")
            w.side = {}
            gc.collect()
            try:
                ws2 = w.Workspace(w.path, mode="r")
                w.ws = ws2
                w.rebind()
                tree2 = w.live_tree()
                ws2.close()
            except Exception as exc:  # pylint: disable=broad-except
                bad("fresh-reader-fails", f"the final file cannot be loaded by a fresh read-only Workspace: "
                    f"{type(exc).__name__}: {str(exc)[:200]}", "C01,C02,C06,C05,C09,C11,C12")
                return viol
            if tree != tree2:
                bad(_reopen_signature(tree, tree2, {int(x) for x in pre.get("dirty", [])}),
                    f"tree before close {tree} != tree of a fresh reader {tree2}", "C01")
    finally:
        try:
            w.ws.close()
        except Exception:  # pylint: disable=broad-except
            pass
        if w.ws2 is not None:
            try:
                w.ws2.close()
            except Exception:  # pylint: disable=broad-except
                pass
            w.ws2 = None
            w.w2side = {}
            try:
                os.remove(w.path2)
            except OSError:
                pass
        for extra in (getattr(w, "old_path", None),):
            if extra:
                try:
                    os.remove(extra)
                except OSError:
                    pass
        w.side = {}
        w.ws = None
        try:
            os.remove(w.path)
        except OSError:
            pass
        gc.collect()
    return viol


def _reopen_signature(before, after, dirty):
    """the recorded finding: a data entity whose write failed (node without values) keeps its values in memory and
    comes back without them; everything else is a plain violation of C01"""
    if set(before) == set(after) and dirty:
        diff = [k for k in before if before[k] != after[k]]
        if diff and all(k in {str(d) for d in dirty} for k in diff) and all(
                before[k][:4] == after[k][:4] and after[k][4] is None and before[k][5:] == after[k][5:] for k in diff):
            return "failed-add-data-values-lost-on-reopen"
    return "reopen-differs-from-live"


def _open_ids(path):
    """HDF5 file/group/dataset/attribute identifiers still open on `path` (other files, e.g. the second workspace, and
    the library's global datatype identifiers do not count)."""
    import h5py
    n = 0
    kinds = h5py.h5f.OBJ_FILE | h5py.h5f.OBJ_GROUP | h5py.h5f.OBJ_DATASET | h5py.h5f.OBJ_ATTR
    for oid in h5py.h5f.get_obj_ids(h5py.h5f.OBJ_ALL, kinds):
        try:
            fid = oid if isinstance(oid, h5py.h5f.FileID) else h5py.h5i.get_file_id(oid)
            name = h5py.h5f.get_name(fid)
        except Exception:  # pylint: disable=broad-except
            continue
        if isinstance(name, bytes):
            name = name.decode("utf-8", "replace")
        if os.path.abspath(name) == os.path.abspath(path):
            n += 1
    return n


def _purged_groups(st):
    return any(r == "dead" for s, r in st["reg"].items() if kind(s) == "G")


def _fmt(lab):
    a = lab["args"]
    return lab["act"] + "(" + ",".join(f"{k}={a[k]}" for k in sorted(a) if k not in ("map", "pmap")) + ")"


def _field(d):
    parts = d.split(":")[0].strip("/").split("/")
    return parts[0] + ("." + parts[-1] if len(parts) > 2 else "")


def _layout_kind(p):
    for k in ("not reachable", "parents", "Type", "ID attribute", "hard link", "property group", "occurs", "missing"):
        if k in p:
            return k.replace(" ", "-")
    return "other"


def _changed(before, after):
    return sorted(k for k in set(before) | set(after) if before.get(k) != after.get(k))


def _footprint(w, before, after, lab, pre):
    """nodes whose stored content or child links changed must lie in the action's footprint.
    Nodes that were already unreachable from Root before the action (the recorded as-built finding: flat nodes left
    behind by a removal through the parent) are outside the file a reader sees; their Type link stops resolving when
    the last live user of the type is collected, so they are not held to the footprint."""
    foot = {int(x) for x in lab["foot"]} | model_orphans(pre)
    allowed = set()
    for s in foot:
        uid = w.root_uid if s == 0 else w.slot2uid.get(s)
        if uid is not None:
            allowed.add(str(uid))
    changed = _changed(before, after)
    offending = []
    for k in changed:
        if k == "header":
            offending.append(k)
        elif k.startswith("Types/"):
            if k in before and k in after:
                # an existing type keeps its attributes; its datasets may change only when it is the type of a data
                # node in the footprint (statistics cache cleared, h5_writer.py:661-684)
                tuid, part = k.split("/")[-1].split(":")
                if part == "attrs" or tuid not in getattr(w, "_foot_types", set()):
                    offending.append(k)
        else:
            uid = k.split("/")[1].split(":")[0]
            if uid not in allowed:
                offending.append(k)
    if offending:
        named = []
        for k in offending:
            parts = k.split("/")
            uid = parts[1].split(":")[0] if len(parts) > 1 and not k.startswith("Types/") else None
            slot = next((s2 for s2, u in w.slot2uid.items() if str(u) == uid), None)
            named.append(f"{k} (slot {slot}; {'deleted' if k not in after else 'created' if k not in before else 'modified'})")
        return f"{lab['act']} changed stored items outside its footprint {sorted(foot)}: {named}"
    return None
