"""C03 - no accepted attribute change is lost (write-through completeness).
Spec: spec/writethrough/WriteThrough.tla   binding: harness/writethrough_impl.py, harness/writethrough_replay.py"""
from __future__ import annotations

import collections
import json
import os
import random
import shutil
import tempfile
import time

from .. import funcheck, tlc
from .. import writethrough_impl as W
from .. import writethrough_replay as R
from ..pool import pmap
from ..tlc import MachineryError

TIERS = {
    "quick": {"ideal": "IdealQuick.cfg", "orders": "OrdersQuick.cfg", "asbuilt": "AsBuiltQuick.cfg", "k": 2,
              "pairs": "neighbours", "pair_paths": None},
    "thorough": {"ideal": "IdealThorough.cfg", "orders": "OrdersThorough.cfg", "asbuilt": "AsBuiltThorough.cfg", "k": 3,
                 "pairs": "all", "pair_paths": 1},
}
NEG = [("NegForgetsPersist.cfg", "WriteThrough"), ("NegPersistsBeforeStoring.cfg", "WriteThrough"),
       ("NegClobbersOther.cfg", "WriteThrough"), ("NegClobbersOtherFrame.cfg", "Frame"),
       ("NegStaleLive.cfg", "WriteThrough"), ("NegDestroysStored.cfg", "WriteThrough"),
       ("NegCloseRevertsToLoaded.cfg", "ReaderSeesLastAssigned")]


def _pmap(fn, items):
    """pool.pmap; when it ran in-process (a single item) its scratch directory - made the process's TMPDIR - is gone"""
    out = pmap(fn, items)
    # pool.pmap's clean-up round does not necessarily reach every worker: remove what the workers report
    for d in {o.get("scratch") for o in out if isinstance(o, dict)}:
        if d and os.path.basename(d).startswith("verif_w_"):
            shutil.rmtree(d, ignore_errors=True)
    if tempfile.tempdir and not os.path.isdir(tempfile.tempdir):
        tempfile.tempdir = None
        os.environ.pop("TMPDIR", None)
        os.chdir(str(tlc.VERIF))
    return out


def _windows(cls, attrs, k):
    """cyclic windows of k consecutive attributes (coupled attributes are never put in one window): every attribute is
    slot 1 of one window, so every attribute and every pair of neighbours is exercised"""
    out = []
    n = len(attrs)
    for i in range(n):
        win = [attrs[i]]
        j = i + 1
        while len(win) < k and j < i + n:
            cand = attrs[j % n]
            if cand not in win and not any(W.coupled(cls, cand, x) for x in win):
                win.append(cand)
            j += 1
        if len(win) == k:
            out.append(win)
    return out


def _features(seq):
    """what a behaviour exercises, per slot: assignment, re-assignment of the same slot with another value (tells
    PersistsBeforeStoring from ForgetsPersist), assign-the-same, both orders of two slots, re-open after an assignment"""
    out = set()
    prev = None
    resumed, set_in_resumed = False, set()
    for act, a, _t in seq:
        if act == "Set":
            out.add(("Set", a))
            if prev and prev[0] == "Set" and prev[1] == a:
                out.add(("Twice", a))
            if prev and prev[0] == "Set" and prev[1] != a:
                out.add(("Order", prev[1], a))
        elif act == "SetSame":
            out.add(("SetSame", a))
        elif act == "SetInvalid":
            out.add(("SetInvalid", a))
        elif act == "Close" and prev and prev[0] in ("Set", "SetSame"):
            out.add(("CloseAfterSet", prev[1]))
        elif act == "Open":
            out.add(("Open",))
            resumed = False
        elif act == "Resume":
            out.add(("Resume",))
            resumed = True
            set_in_resumed = set()
        if act in ("Set", "SetSame") and resumed:
            set_in_resumed.add(a)
        if act == "Close" and resumed:
            # a session resumed on the same Workspace instance, an assignment through the object kept from the earlier
            # session, then close
            for x in set_in_resumed:
                out.add(("ResumeSetClose", x))
        prev = (act, a)
    return out


_SELECT_CACHE = {}


def _select(cover, start, skip=()):
    """a sub-family of the transition cover with every per-slot feature (except those in `skip`) and the smallest total
    number of steps (exhaustive over sub-families of up to 3 behaviours); ties are rotated by `start`"""
    import itertools
    key = (id(cover), tuple(sorted(skip)))
    if key not in _SELECT_CACHE:
        feats = [_features(q) - set(skip) for q in cover]
        need = set().union(*feats)
        best = []
        for r in (1, 2, 3):
            for combo in itertools.combinations(range(len(cover)), r):
                if set().union(*(feats[i] for i in combo)) >= need:
                    best.append((sum(len(cover[i]) for i in combo), combo))
            if best:
                break
        if not best:
            best = [(sum(map(len, cover)), tuple(range(len(cover))))]
        best.sort()
        _SELECT_CACHE[key] = [c for n, c in best if n <= best[0][0] * 1.15][:6]
    options = _SELECT_CACHE[key]
    return [cover[i] for i in options[start % len(options)]]


def _orders_sequences(cfg):
    """TLC run with the history in the state: every order of assignments / re-opens up to MaxDepth is a distinct
    behaviour; -> (TLCResult, list of action sequences = the maximal histories)"""
    from .. import graph
    res = tlc.run_tlc("writethrough", "WriteThrough", cfg, workers=1, heap="4g")
    if not res.ok:
        raise MachineryError(f"{cfg}: the Ideal design violates {res.violated}\n{res.raw_tail[-1500:]}")
    g = tlc.build_graph(res.lines)
    init = graph.split_init(res.lines)
    paths, covered, unreachable = graph.path_cover(g.states, g.edges, init, max_len=12)
    if unreachable or covered != len(g.edges):
        raise MachineryError(f"{cfg}: path cover incomplete")
    seqs = [[(g.edges[j][2]["act"], g.edges[j][2]["a"], g.edges[j][2]["t"]) for j in p] for p in paths]
    return res, seqs, len(g.edges)


def run(tier, seed):  # pylint: disable=too-many-locals,too-many-statements,too-many-branches
    cfg = TIERS[tier]
    rng = random.Random(seed)
    t0 = time.time()
    targets = W.discover()
    only = os.environ.get("VERIF_C03_ONLY")  # development aid: comma separated class names
    if only:
        targets = [t for t in targets if W.target_name(t) in only.split(",")]
    shared = tempfile.mkdtemp(prefix="verif_c03_tpl_", dir="/tmp")  # templates built once, by the census workers
    R.SHARED["dir"] = shared
    try:
        return _run(tier, seed, cfg, rng, t0, targets, only)
    finally:
        R.SHARED["dir"] = None
        shutil.rmtree(shared, ignore_errors=True)


def _run(tier, seed, cfg, rng, t0, targets, only):  # pylint: disable=too-many-locals,too-many-statements,too-many-branches,too-many-arguments
    cen = _pmap(R.census, targets)
    for c in cen:
        if c["error"] and c["error"].startswith("harness:"):
            raise MachineryError(c["error"])
    t_census = time.time() - t0

    # ---- TLC: design-level check + exports (independent runs, started together)
    from concurrent.futures import ThreadPoolExecutor
    with ThreadPoolExecutor(max_workers=6) as ex:
        f_i = ex.submit(R.sequences_from_cover, cfg["ideal"], 25)
        f_o = ex.submit(_orders_sequences, cfg["orders"])
        f_a = ex.submit(R.load_tracking_graph, "track", cfg["asbuilt"])
        if tier == "thorough":
            f_i2 = ex.submit(R.sequences_from_cover, "IdealQuick.cfg", 25)
            f_a2 = ex.submit(R.load_tracking_graph, "track2", "AsBuiltQuick.cfg")
        f_neg = [ex.submit(funcheck.expect_violation, "writethrough", "WriteThrough", ncfg, inv) for ncfg, inv in NEG]
        f_i1 = ex.submit(R.sequences_from_cover, "IdealK1.cfg", 25)
        f_o1 = ex.submit(_orders_sequences, "OrdersK1.cfg")
        f_a1 = ex.submit(R.load_tracking_graph, "track1", "AsBuiltK1.cfg")
        f_tw = [ex.submit(R.load_tracking_graph, f"twin{kk}", tcfg, "4g", True)
                for kk, tcfg in ((1, "TwinK1.cfg"), (2, "TwinQuick.cfg")) + (((3, "TwinThorough.cfg"),) if tier == "thorough" else ())]
        res_i, cover, n_edges_i = f_i.result()
        for f in f_tw:
            f.result()
        res_i1, cover1, _n1 = f_i1.result()
        res_o1, orders1, _n2 = f_o1.result()
        res_a1 = f_a1.result()
        res_o, orders, n_edges_o = f_o.result()
        res_a = f_a.result()
        if tier == "thorough":
            res_i2, cover2, n_edges_i2 = f_i2.result()
            res_a2 = f_a2.result()
        negs = []
        for (ncfg, inv), f in zip(NEG, f_neg):
            f.result()
            negs.append(f"{ncfg}: {inv} violated")
    acts = {lab[0] for q in cover for lab in q}
    if not {"Set", "SetSame", "SetInvalid", "Close", "Open", "Resume"} <= acts:
        raise MachineryError(f"an action of the spec was never taken in the exported graph: {sorted(acts)}")

    # ---- bindings
    k = cfg["k"]
    items = []
    pairs_total = pairs_bound = 0
    not_exercised = {}
    classes_not_instantiated = {}
    per_target = {}
    o_idx = rng.randrange(len(orders))
    representative = {}
    n_full = 0
    # windows of classes that only inherit the setter of slot 1 need the features of slot 1 and of the two orders; the
    # other slots are slot 1 of their own windows
    other_slot_features = {f for q in cover for f in _features(q)
                           if (f[0] in ("Set", "Twice", "SetSame", "CloseAfterSet", "ResumeSetClose") and f[1] != 1)
                           or f[0] == "SetInvalid"}
    resume_patterns = [q for q in orders if [x[0] for x in q] == ["Close", "Resume", "Set", "Close"] and q[2][1] == 1]
    if not resume_patterns:
        raise MachineryError("the Orders export has no behaviour Close, Resume, Set(1, t), Close")
    for t, c in zip(targets, cen):
        name = W.target_name(t)
        pairs_total += len(t["attrs"])
        for a, why in t["left_out"].items():
            not_exercised.setdefault(f"{a} (every class)", why)
        if c["error"]:
            classes_not_instantiated[name] = c["error"]
            for a in t["attrs"]:
                not_exercised[f"{name}.{a}"] = "class not instantiated: " + c["error"]
            continue
        for a, why in c["skipped"].items():
            not_exercised[f"{name}.{a}"] = why
        attrs = list(c["attrs"])
        if len(attrs) == 1:
            # a class with a single exercisable attribute: the K = 1 configuration of the same specification
            wins = []
            for q in cover1 + [q for q in orders1 if [x[0] for x in q] == ["Close", "Resume", "Set", "Close"]]:
                items.append({"target": t, "attrs": attrs, "path": q, "graph": "track1", "variant": "cover1"})
            pairs_bound += 1
            per_target[name] = {"attributes": len(t["attrs"]), "exercised": 1, "windows": 1,
                                "behaviours": len(cover1)}
            for a, why in c["skipped"].items():
                not_exercised[f"{name}.{a}"] = why
            continue
        if not attrs:
            for a, why in c["skipped"].items():
                not_exercised[f"{name}.{a}"] = why
            continue
        if len(attrs) < k:
            if len(attrs) >= 2 and k == 3:
                wins = []
            else:
                raise MachineryError(f"{name}: only {len(attrs)} exercisable attributes")
        else:
            wins = _windows(t["cls"], attrs, k)
        bound = {a for w in wins for a in w}
        n_items0 = len(items)
        for flag, guarded in W.GUARDED:
            if flag in attrs and guarded in attrs and not W.coupled(t["cls"], flag, guarded):
                # a permission flag and the attribute it guards: all orders / all states of the flag (K = 2 cover)
                gcover, ggraph = (cover, "track") if k == 2 else (cover2, "track2")
                for q in gcover:
                    items.append({"target": t, "attrs": [flag, guarded], "path": q, "graph": ggraph, "variant": "guard"})
        for wi, w in enumerate(wins):
            # the class through which the setter of slot 1 is first met replays the whole transition cover; the classes
            # that inherit the same setter replay a sub-family with every kind of step on every slot
            key = (t["defined_in"].get(w[0]), w[0], t["kind"])
            full = key not in representative
            representative.setdefault(key, name)
            chosen = cover if full else _select(cover, wi + len(items), skip=other_slot_features)
            n_full += full
            for q in chosen:
                items.append({"target": t, "attrs": w, "path": q, "graph": "track", "variant": "cover" if full else "cover-sub"})
            if not any(("ResumeSetClose", 1) in _features(q) for q in chosen):
                # close, resume the same Workspace instance, assign slot 1 through the object kept from before, close
                q = resume_patterns[(wi + len(items)) % len(resume_patterns)]
                items.append({"target": t, "attrs": w, "path": q, "graph": "track", "variant": "resume"})
            # a share of the all-orders behaviours, dealt round-robin over all bindings
            share = 1 if tier == "quick" else 4
            for _ in range(share):
                items.append({"target": t, "attrs": w, "path": orders[o_idx % len(orders)], "graph": "track",
                              "variant": "orders"})
                o_idx += 1
        if tier == "thorough":
            # all unordered pairs of attributes of the class (both orders of assignment are inside every window's cover)
            wins2 = _windows(t["cls"], attrs, 2)
            pool = [(a, b) for i, a in enumerate(attrs) for b in attrs[i + 1:] if not W.coupled(t["cls"], a, b)]
            for n, (a, b) in enumerate(pool):
                # one behaviour per pair in which the two slots are assigned one after the other (order alternates)
                having = [q for q in cover2 if ("Order", 1, 2) in _features(q)] or cover2
                q = sorted(having, key=len)[(n // 2) % min(3, len(having))]
                items.append({"target": t, "attrs": [a, b] if n % 2 == 0 else [b, a], "path": q, "graph": "track2",
                              "variant": "pairs"})
            for w in wins2:
                bound |= set(w)
                if len(attrs) < 3:
                    for q in cover2:
                        items.append({"target": t, "attrs": w, "path": q, "graph": "track2", "variant": "cover2"})
        missing = set(attrs) - bound
        for a in missing:
            not_exercised[f"{name}.{a}"] = "no window without a coupled attribute could be formed"
        pairs_bound += len(bound)
        per_target[name] = {"attributes": len(t["attrs"]), "exercised": len(bound), "windows": len(wins),
                            "behaviours": len(items) - n_items0}
    if pairs_bound < 500 and not only:
        raise MachineryError(f"only {pairs_bound} (class, attribute) pairs could be bound")
    # vacuity guard: every pair that is exercisable on the reference tree must still be exercised (a regression that
    # makes a fixture value unreadable or a valid value refused must not silently shrink the check)
    base_file = tlc.SPEC / "writethrough" / "exercised_pairs.json"
    bound_pairs = sorted(f"{W.target_name(t)}.{a}" for t, c in zip(targets, cen) if not c["error"] for a in c["attrs"])
    if os.environ.get("VERIF_C03_WRITE_BASELINE"):
        base_file.write_text(json.dumps(bound_pairs, indent=0) + "\n")
    if base_file.exists():
        expected = set(json.loads(base_file.read_text()))
        if only:
            expected = {p for p in expected if p.rsplit(".", 1)[0] in only.split(",")}
        gone = sorted(expected - set(bound_pairs))
        if gone:
            why = {p: not_exercised.get(p, classes_not_instantiated.get(p.rsplit(".", 1)[0], "?")) for p in gone[:8]}
            raise MachineryError(f"{len(gone)} (class, attribute) pairs exercised on the reference tree can no longer be "
                                 f"exercised: {why}")

    if os.environ.get("VERIF_C03_DRY"):  # development aid: size of the replay, nothing executed
        by = collections.Counter()
        for it in items:
            by[it["variant"]] += len(it["path"])
        raise MachineryError(f"dry run: {len(items)} behaviours, steps by variant {dict(by)}")
    # ---- replay
    t1 = time.time()
    out = _pmap(R.replay_item, items)
    t_replay = time.time() - t1
    stats = collections.Counter()
    viol = []
    exercised_pairs = set()
    for it, o in zip(items, out):
        stats.update(o["stats"])
        viol += o["viol"]
    for it in items:
        used = {lab[1] for lab in it["path"] if lab[0] in ("Set", "SetSame")}
        for s in used:
            exercised_pairs.add(W.target_name(it["target"]) + "." + it["attrs"][s - 1])
    if len(exercised_pairs) < pairs_bound:
        raise MachineryError(f"{pairs_bound - len(exercised_pairs)} bound pairs were never assigned in a replayed behaviour")
    viol += _census_violations(targets, cen, viol)
    states = res_i.distinct + res_o.distinct + res_a.distinct + res_i1.distinct + res_o1.distinct + res_a1.distinct
    trans = res_i.generated + res_o.generated + res_a.generated + res_i1.generated + res_o1.generated + res_a1.generated
    per_cfg = {cfg["ideal"]: {"distinct": res_i.distinct, "generated": res_i.generated, "edges": n_edges_i,
                              "cover_paths": len(cover), "wall_s": round(res_i.wall_s, 1)},
               cfg["orders"]: {"distinct": res_o.distinct, "generated": res_o.generated, "edges": n_edges_o,
                               "behaviours": len(orders), "wall_s": round(res_o.wall_s, 1)},
               cfg["asbuilt"]: {"distinct": res_a.distinct, "generated": res_a.generated,
                                "edges": R.GRAPH["track"]["edges"], "wall_s": round(res_a.wall_s, 1)}}
    if tier == "thorough":
        states += res_i2.distinct + res_a2.distinct
        trans += res_i2.generated + res_a2.generated
        per_cfg["IdealQuick.cfg"] = {"distinct": res_i2.distinct, "generated": res_i2.generated, "edges": n_edges_i2}
        per_cfg["AsBuiltQuick.cfg"] = {"distinct": res_a2.distinct, "generated": res_a2.generated}
    mid = items[len(items) // 2]
    cen_by = {c["target"]: c for c in cen}
    orders_replayed = sum(1 for it in items if it["variant"] == "orders")
    sample = [{"class": W.target_name(mid["target"]), "slots": mid["attrs"],
               "values": {a: cen_by[W.target_name(mid["target"])]["values"].get(a) for a in mid["attrs"]},
               "behaviour": [f"{x[0]}({mid['attrs'][x[1] - 1] if x[1] else ''}{',t' + str(x[2]) if x[0] == 'Set' else ''})"
                             for x in mid["path"]]}]
    cov = {
        "states": states, "transitions": trans, "traces_validated_against_impl": len(items),
        "steps_compared": stats["steps"], "reader_comparisons": stats["reader_checked"],
        "raw_hdf5_comparisons": stats["raw_checked"], "deviation_steps_tracked": stats["dev_steps"],
        "behaviours_extended_to_identify_mechanism": stats["extended"],
        "set_invalid_without_candidate_value_skipped": stats["skipped_invalid"],
        "refused_assignment_left_live_changed_observed": stats["refused_changed_live"],
        "set_invalid_value_accepted_observed": stats["invalid_accepted"],
        "behaviours_cut_after_deviation": stats["cut_after_deviation"],
        "assignments_fresh_value": stats["assigned_fresh"], "assignments_array_edited_in_place": stats["assigned_inplace"],
        "unbound_scalar_attribute_comparisons": stats["unbound_scalar_checked"],
        "classes_discovered": len(targets), "classes_instantiated": len(targets) - len(classes_not_instantiated),
        "pairs_discovered": pairs_total, "pairs_exercised": len(exercised_pairs),
        "pairs_not_exercised": len(not_exercised),
        "windows_with_full_transition_cover": n_full, "distinct_setters": len(representative),
        "orders_behaviours_available": len(orders), "orders_behaviours_replayed": orders_replayed,
        "exhaustive": False,
        "per_config": per_cfg, "negative_controls": negs, "per_class": per_target,
        "classes_not_instantiated": classes_not_instantiated, "not_exercised": not_exercised,
        "wall_census_s": round(t_census, 1), "wall_replay_s": round(t_replay, 1),
        "samples": sample,
        "rule": "TLC checks WriteThrough, ReaderSeesLastAssigned, LiveIsLastAssigned, AssignedIsStored, Frame, "
                "RefusedChangesNothing, ReopenShowsFile on the Ideal model (complete state graph, and all histories up to "
                "MaxDepth) and that each named deviation violates them; every transition of the Ideal graph is replayed on "
                "every window of K consecutive assignable attributes of every class discovered by reflection, on an entity "
                "that was created, closed and re-opened; after every action the live getters and what a fresh "
                "Workspace on a flushed copy of the file (or the closed file) sees are matched against the successors "
                "TLC printed for that action in the as-built graph; raw HDF5 attribute / dataset content must be a "
                "function of the token",
    }
    assumptions = [
        f"bounds: K = {k} attribute slots, 3 value tokens per slot (stored value + 2 further valid values), "
        "complete state graph of the Ideal model; all orders of assignments / re-opens up to 4 actions are enumerated by "
        "TLC and dealt over the bindings (each binding replays a share, every behaviour at least once when "
        "orders_behaviours_replayed >= orders_behaviours_available)",
        "one fixture instance per class (small arrays); domain values derived from the stored value's type "
        "(harness/writethrough_impl.py: domain); values a setter refuses on the freshly stored entity are listed as not exercised",
        "attributes left out as not being attributes (uid, parent, entity_type, on_file, workspace, h5file, repack) and "
        "windows never contain two attributes coupled by design (COUPLED table): reasons in coverage.not_exercised",
        "concatenated (drillhole-group) storage is C04; entity-valued children (visual_parameters, ab_cell_id, depths, "
        "tx_id_property) are exercised through the child's own class",
        "trusted: TLC, h5py, the token<->value comparison in harness/writethrough_impl.py (canon / same), h5snap helpers",
    ]
    return {"level": "model_checking", "violations": _dedupe(viol), "coverage": cov, "assumptions": assumptions}


def _pair_name(t, attr):
    definer = t["defined_in"].get(attr, t["cls"]).split(".")[-1]
    return f"{definer}.{attr}@{t['kind']}" + ("~concatenated" if t.get("variant") == "concatenated" else "")


def _census_violations(targets, cen, viol):
    """a value the live entity shows before the first close that the re-opened entity does not show (reported unless a
    replayed behaviour already names the mechanism for that setter)"""
    named = {v["signature"].split(":")[-1] for v in viol}
    out = []
    for t, c in zip(targets, cen):
        for attr, text in c.get("reopen_differs", {}).items():
            pair = _pair_name(t, attr)
            if pair in named:
                continue
            out.append({"signature": f"lost-at-first-close:{pair}",
                        "summary": f"{W.target_name(t)}.{attr}: {text}",
                        "case": {"target": W.target_name(t), "attrs": [attr], "path": [], "graph": "track",
                                 "variant": "census"}})
    for t, c in zip(targets, cen):
        for attr, text in c.get("unreadable_after", {}).items():
            out.append({"signature": f"file-unreadable:{_pair_name(t, attr)}", "summary": text,
                        "case": {"target": W.target_name(t), "attrs": [attr], "path": [], "graph": "track",
                                 "variant": "census"}})
    return out


def _dedupe(viol):
    """keep every signature, at most 3 cases per signature (shortest behaviours first)"""
    by = collections.defaultdict(list)
    for v in viol:
        by[v["signature"]].append(v)
    out = []
    for sig in sorted(by):
        vs = sorted(by[sig], key=lambda v: len(v["case"]["path"]))
        for v in vs[:3]:
            v = dict(v)
            v["summary"] += f" [{len(vs)} behaviours]"
            out.append(v)
    return out


def replay(doc):
    case = doc["case"]
    targets = {W.target_name(t): t for t in W.discover()}
    t = targets[case["target"]]
    if case.get("variant") == "census":
        from ..pool import _cleanup, scratch
        scratch()
        try:
            c = R.census(t)
        finally:
            _cleanup(None)
        v = [x for x in _census_violations([t], [c], []) if x["case"]["attrs"] == case["attrs"]]
        return {"violations": v, "coverage": {"replayed": 1}}
    name = case.get("graph", "track")
    cfg = {1: "AsBuiltK1.cfg", 2: "AsBuiltQuick.cfg", 3: "AsBuiltThorough.cfg"}[len(case["attrs"])]
    R.load_tracking_graph(name, cfg)
    R.load_tracking_graph(f"twin{len(case['attrs'])}", {1: "TwinK1.cfg", 2: "TwinQuick.cfg", 3: "TwinThorough.cfg"}[len(case["attrs"])],
                          full_view=True)
    from ..pool import _cleanup, scratch
    scratch()
    try:
        o = R.replay_item({"target": t, "attrs": case["attrs"], "path": [tuple(x) for x in case["path"]], "graph": name,
                           "variant": case.get("variant", "")})
    finally:
        _cleanup(None)
    return {"violations": o["viol"], "coverage": {"replayed": 1, "steps": o["stats"]["steps"]}}
