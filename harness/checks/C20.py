"""C20 - linked surveys stay mutually consistent.  Spec: spec/survey/LinkedSurveys.tla

TLC explores, per linked class pair, every history of LinkFrom / Edit / Copy / Reopen within the bounds of
the cfg files, checks the invariants of the property on the specification and exports the state graph.
A path cover of that graph is replayed on real survey objects in real .geoh5 files; after EVERY action the
implementation is projected onto the abstract state of the specification (live metadata of every entity,
the raw "Metadata" JSON of its node read with plain h5py, what the partner getters return, which stations /
loops each entity holds and which loops the receivers refer to) and compared with the state TLC computed.
On the prefix of a path that another path has already verified, only metadata (live + raw) and geometry are compared and
no partner getter is called: the getters fill lazy caches, and edits must also be exercised on cold caches.
"""
from __future__ import annotations

import json
import os
import time
import uuid
from concurrent.futures import ThreadPoolExecutor

import numpy as np

from .. import graph, tlc
from ..pool import pmap, scratch
from ..tlc import MachineryError

PAIRS = ["ATEM", "AFEM", "MLTEM", "MLFEM", "LLTEM", "LLFEM", "TIP", "TIP1", "DC", "MT"]
MODULE = "LinkedSurveys"
SPEC_DIR = "survey"

# cfg files per tier: <pair>_<flavour>.cfg, see spec/survey/gen_cfgs.py for how they were written
FLAVOURS = {"quick": ["qs", "qe"], "thorough": ["qs", "qe", "ts", "te"]}
# configurations whose replay also runs the file-layout oracle (harness/h5snap.py) after copies and on the closed files
LAYOUT_FLAVOURS = ("qi.cfg", "qg.cfg")
# property group holding the id data (qi) / copies of the group that holds the pair (qg)
SPECIAL = {"quick": [("DC", "qi"), ("LLFEM", "qi"), ("DC", "qg"), ("AFEM", "qg")],
           "thorough": [("DC", "qi"), ("LLFEM", "qi"), ("DC", "qg"), ("AFEM", "qg")]}
# re-linking with additional originals (a second A / B): only these pairs have the configurations
RELINK = {"quick": [("DC", "qr"), ("AFEM", "qr")], "thorough": [("DC", "qr"), ("AFEM", "qr"), ("DC", "tr"), ("AFEM", "tr")]}
# negative controls: one named deviation switched on, TLC must report one of these properties as violated
NEGATIVE = [("ATEM_dev_WaveformAliased.cfg", {"WriteThrough", "EditIsLocal"}),
            ("LLFEM_dev_LinkFromTxDropsTxId.cfg", {"TxIdKept"}),
            ("MLFEM_dev_InputTypeSetterMLFEM.cfg", {"ValidEditsAccepted"}),
            ("TIP_dev_UnitSetterTIP.cfg", {"ValidEditsAccepted"}),
            ("MLTEM_dev_LoopRadiusNoneHalfApplied.cfg", {"WriteThrough", "RefusedIsNoop"}),
            ("TIP1_dev_TipperSingleBaseMaskedCopy.cfg", {"RefusedIsNoop", "CopyCopiesPartner"}),
            ("DC_dev_RelinkKeepsCachedPartner.cfg", {"LinkSticks", "BothIds", "SharedEqual"}),
            ("AFEM_dev_RelinkLeavesSharedDictionary.cfg", {"WriteThrough"}),
            ("DC_dev_CopyFailsOnGroupedIdData.cfg", {"RefusedIsNoop", "CopyCopiesPartner"}),
            ("AFEM_dev_GroupCopyDuplicatesPair.cfg", {"GroupCopyOnce"}),
            ("LLFEM_dev_EmptyPartnerBreaksLoopCopy.cfg", {"RefusedIsNoop", "CopyCopiesPartner"})]

SIGNATURES = {
    "WaveformAliased": "copy-shares-waveform-dict-with-source",
    "LinkFromTxDropsTxId": "link-from-transmitters-drops-tx-id-property",
    "InputTypeSetterMLFEM": "input-type-setter-raises-moving-loop-fem",
    "UnitSetterTIP": "unit-setter-raises-tipper",
    "LoopRadiusNoneHalfApplied": "rejected-loop-radius-none-leaves-live-metadata-changed",
    "TipperSingleBaseMaskedCopy": "masked-copy-of-tipper-receivers-fails-with-single-base-station",
    "RelinkKeepsCachedPartner": "taken-over-partner-keeps-resolving-its-previous-partner",
    "RelinkLeavesSharedDictionary": "former-partner-live-metadata-follows-the-new-pair",
    "CopyFailsOnGroupedIdData": "copy-fails-when-a-property-group-holds-the-linking-data",
    "GroupCopyDuplicatesPair": "group-copy-duplicates-the-linked-pair",
    "EmptyPartnerBreaksLoopCopy": "copy-of-loops-whose-receivers-have-no-station-fails",
}

CLASSES = {
    "ATEM": ("AirborneTEMReceivers", "AirborneTEMTransmitters"),
    "AFEM": ("AirborneFEMReceivers", "AirborneFEMTransmitters"),
    "MLTEM": ("MovingLoopGroundTEMReceivers", "MovingLoopGroundTEMTransmitters"),
    "MLFEM": ("MovingLoopGroundFEMReceivers", "MovingLoopGroundFEMTransmitters"),
    "LLTEM": ("LargeLoopGroundTEMReceivers", "LargeLoopGroundTEMTransmitters"),
    "LLFEM": ("LargeLoopGroundFEMReceivers", "LargeLoopGroundFEMTransmitters"),
    "TIP": ("TipperReceivers", "TipperBaseStations"),
    "TIP1": ("TipperReceivers", "TipperBaseStations"),  # a single base station
    "DC": ("PotentialElectrode", "CurrentElectrode"),
    "MT": ("MTReceivers", None),
}
# partner attribute seen from role A / from role B, own attribute of role A / role B
ATTRS = {
    "em": {"A": "transmitters", "B": "receivers", "ownA": "receivers", "ownB": "transmitters"},
    "TIP": {"A": "base_stations", "B": "receivers", "ownA": "receivers", "ownB": "base_stations"},
    "DC": {"A": "current_electrodes", "B": "potential_electrodes",
           "ownA": "potential_electrodes", "ownB": "current_electrodes"},
}
KEYS = {  # metadata key of role A / role B
    "em": ("Receivers", "Transmitters"),
    "TIP": ("Receivers", "Base stations"),
    "DC": ("Potential Electrodes", "Current Electrodes"),
}
GROUPED = {"LLTEM", "LLFEM", "DC"}
LARGE_LOOP = {"LLTEM", "LLFEM"}

OFFSETS = {"crossline_offset": "Crossline offset", "inline_offset": "Inline offset",
           "vertical_offset": "Vertical offset", "pitch": "Pitch", "roll": "Roll", "yaw": "Yaw"}
P1 = uuid.UUID("11111111-2222-4333-8444-555555555555")
CHANNELS = {"c0": [], "c1": [1.0, 2.0], "c2": [3.0]}
TIMING = {"t0": 0.0, "t1": 1.5, "t2": 2.5}
RADIUS = {"r0": 1, "r1": 50.0, "r2": 75.5}
WAVE = {"w1": [[0.0, 1.0], [1.0, 0.0]], "w2": [[0.0, 0.0], [0.5, 1.0], [2.0, 0.0]]}
MASKS = {"lo": (0.5, 2.5), "mid": (1.75, 3.25), "hi": (2.5, 4.5)}
MASK_ST = {"lo": {1, 2}, "mid": {2, 3}, "hi": {3, 4}}
MASK_GR = {"lo": {1}, "mid": set(), "hi": {2}}
# x of the centre of transmitter loop / current dipole g.  LLFEM has a third loop (2) that no receiver refers to.
LOOP_X = {1: 1.5, 2: 3.5}
LOOP_X_SPARE = {1: 1.5, 2: 2.2, 3: 3.5}
MASK_GR_SPARE = {"lo": {1, 2}, "mid": {2}, "hi": {3}}
RX_IDS_SPARE = [1, 1, 3, 3]
SPARE = {"LLFEM"}


def loop_of(pair, x):
    table = LOOP_X_SPARE if pair in SPARE else LOOP_X
    g = min(table, key=lambda k: abs(table[k] - x))
    return g if abs(table[g] - x) < 0.2 else 0


def family(pair):
    return "TIP" if pair in ("TIP", "TIP1") else ("DC" if pair == "DC" else "em")


# ------------------------------------------------------------------------------------------ the world
class World:  # pylint: disable=too-many-instance-attributes
    """The implementation side: two workspace files, the entities created so far, action + projection."""

    def __init__(self, pair, tag, n_orig=2, idingroup=False, ingroup=False):
        from geoh5py import Workspace
        self.pair = pair
        self.fam = family(pair)
        self.dir = scratch()
        self.paths = {1: os.path.join(self.dir, f"c20_{tag}_1.geoh5"), 2: os.path.join(self.dir, f"c20_{tag}_2.geoh5")}
        for p in self.paths.values():
            if os.path.exists(p):
                os.unlink(p)
        self.ws = {1: Workspace.create(self.paths[1]), 2: None}
        self.table = []  # per id-1: dict(ws, uid, role)
        self.objs = []  # live python objects, same index
        self.n_orig = n_orig
        self.idingroup = idingroup
        self.check_layout = False
        self.group = None
        if ingroup:
            from geoh5py.groups import ContainerGroup
            self.group = ContainerGroup.create(self.ws[1], name="G")
        self._build()

    # ---------------------------------------------------------------- construction of the originals
    def _build(self):
        import geoh5py.objects as O
        ws = self.ws[1]
        kw = {} if self.group is None else {"parent": self.group}
        cls_a, cls_b = CLASSES[self.pair]
        st = np.array([[float(s), 0.0, 0.0] for s in (1, 2, 3, 4)])
        loops = LOOP_X_SPARE if self.pair in SPARE else LOOP_X
        if self.pair == "DC":
            v, c = [], []
            for s in (1, 2, 3, 4):
                v += [[s - 0.1, 0.0, 0.0], [s + 0.1, 0.0, 0.0]]
                c += [[2 * (s - 1), 2 * (s - 1) + 1]]
            vb, cb = [], []
            for k, g in enumerate(sorted(loops)):
                vb += [[loops[g] - 0.1, 10.0, 0.0], [loops[g] + 0.1, 10.0, 0.0]]
                cb += [[2 * k, 2 * k + 1]]
            b = O.CurrentElectrode.create(ws, vertices=np.array(vb), cells=np.array(cb, dtype="uint32"), name="B", **kw)
            b.add_default_ab_cell_id()
            a = O.PotentialElectrode.create(ws, vertices=np.array(v), cells=np.array(c, dtype="uint32"), name="A", **kw)
            a.ab_cell_id = np.array([1, 1, 2, 2], dtype="int32")
        elif self.pair in LARGE_LOOP:
            a = getattr(O, cls_a).create(ws, vertices=st, name="A", **kw)
            vb, cb, n = [], [], 0
            for g in sorted(loops):
                x0, x1 = loops[g] - 0.1, loops[g] + 0.1
                vb += [[x0, 10.0, 0.0], [x0, 10.2, 0.0], [x1, 10.2, 0.0], [x1, 10.0, 0.0]]
                cb += [[n, n + 1], [n + 1, n + 2], [n + 2, n + 3], [n + 3, n]]
                n += 4
            b = getattr(O, cls_b).create(ws, vertices=np.array(vb), cells=np.array(cb, dtype="uint32"), name="B", **kw)
            b.tx_id_property = b.parts + 1
            a.tx_id_property = np.array(RX_IDS_SPARE if self.pair in SPARE else [1, 1, 2, 2])
        else:
            a = getattr(O, cls_a).create(ws, vertices=st, name="A", **kw)
            b = None
            if cls_b:
                vb = (st[:1] if self.pair == "TIP1" else st) + np.array([0.0, 1.0, 0.0])
                b = getattr(O, cls_b).create(ws, vertices=vb, name="B", **kw)
        if self.idingroup:
            # a property group of the A entity that holds an ordinary data AND the data that links it to its partner
            ids = a.ab_cell_id if self.pair == "DC" else a.tx_id_property
            obs = a.add_data({"obs": {"values": np.arange(4.0), "association": "CELL" if self.pair == "DC" else "VERTEX"}})
            a.add_data_to_group([obs, ids], "observations")
        self._register(a, 1, "A")
        if b is not None:
            self._register(b, 1, "B")
        # additional originals for re-linking (constant Extras of the spec): a second A, a second B
        if self.n_orig >= 3:
            self._register(self._extra("A", a), 1, "A")
        if self.n_orig >= 4:
            self._register(self._extra("B", b), 1, "B")

    def _extra(self, role, like):
        """A second original of the same class and geometry as `like` (shifted in y), with its own id data."""
        import geoh5py.objects as O
        ws = self.ws[1]
        verts = like.vertices + np.array([0.0, 2.0, 0.0])
        if self.pair == "DC":
            cls = O.PotentialElectrode if role == "A" else O.CurrentElectrode
            obj = cls.create(ws, vertices=verts, cells=np.array(like.cells, dtype="uint32"), name=role + "2")
            if role == "A":
                obj.ab_cell_id = np.array([1, 1, 2, 2], dtype="int32")
            else:
                obj.add_default_ab_cell_id()
            return obj
        if self.pair in LARGE_LOOP:
            raise MachineryError("additional originals are not set up for large-loop pairs")
        return type(like).create(ws, vertices=verts, name=role + "2")

    def _register(self, obj, wsi, role):
        self.table.append({"ws": wsi, "uid": obj.uid, "role": role})
        self.objs.append(obj)

    def _ws_index(self, workspace):
        for k, w in self.ws.items():
            if w is workspace:
                return k
        return 0

    def _id_of(self, wsi, uid):
        for k, row in enumerate(self.table):
            if row["ws"] == wsi and row["uid"] == uid:
                return k + 1
        for row in self.table:
            if row["uid"] == uid:
                return -2  # an entity of the other workspace
        return -1

    def _id_of_obj(self, obj):
        if obj is None:
            return 0
        for k, o in enumerate(self.objs):
            if o is obj:
                return k + 1
        return -3  # some other python object (not the registered one)

    # ---------------------------------------------------------------- actions
    def do(self, lab):
        act = lab["act"]
        try:
            if act == "LinkFrom":
                s, o = lab["i"], lab["j"]
                me, other = self.objs[s - 1], self.objs[o - 1]
                setattr(me, ATTRS[self.fam][self.table[s - 1]["role"]], other)
                return "ok"
            if act == "Edit":
                self._edit(self.objs[lab["i"] - 1], lab["op"], lab["val"])
                return "ok"
            if act == "Copy":
                return self._copy(lab)
            if act == "CopyGroup":
                return self._copy_group(lab)
            if act == "Reopen":
                self.reopen()
                return "ok"
        except Exception as exc:  # pylint: disable=broad-except
            return f"refused:{type(exc).__name__}"
        raise MachineryError(f"unknown action {lab}")

    def _edit(self, obj, op, val):
        if op == "channels":
            obj.channels = "bogus" if val == "bogus" else list(CHANNELS[val])
        elif op == "unit":
            obj.unit = val
        elif op == "input_type":
            obj.input_type = val
        elif op == "loop_radius":
            obj.loop_radius = "bogus" if val == "bogus" else (None if val == "none" else RADIUS[val])
        elif op == "waveform":
            obj.waveform = np.array(WAVE[val])
        elif op == "timing_mark":
            obj.timing_mark = TIMING[val]
        elif op in OFFSETS:
            setattr(obj, op, {"f1": 12.5, "p1": P1, "none": None}[val])
        elif op == "relative_to_bearing":
            obj.relative_to_bearing = {"true": True, "false": False, "none": None}[val]
        elif op == "edit_em_metadata":
            obj.edit_em_metadata({"Custom": None if val == "none" else val})
        elif op == "edit_metadata":
            obj.edit_metadata({"Custom": None if val == "none" else val})
        else:
            raise MachineryError(f"unknown setter {op}")

    def _node_uids(self, wsi):
        """uids of the object nodes of workspace wsi, read from the open file with plain h5py."""
        ws = self.ws[wsi]
        if ws is None:
            return set()
        h5 = ws.geoh5
        return {uuid.UUID(k) for k in h5[list(h5)[0]]["Objects"].keys()}

    def _copy(self, lab):
        from geoh5py import Workspace
        i = lab["i"]
        obj = self.objs[i - 1]
        role = self.table[i - 1]["role"]
        src_ws = self.table[i - 1]["ws"]
        dst_ws = src_ws if lab["dest"] == "same" else 3 - src_ws
        if self.ws[dst_ws] is None:
            self.ws[dst_ws] = Workspace.create(self.paths[dst_ws])
        kwargs = {}
        if lab["dest"] == "other":
            kwargs["parent"] = self.ws[dst_ws]
        before = {(w, u) for w in (1, 2) for u in self._node_uids(w)}
        new, failure = None, None
        try:
            if lab["how"] == "plain":
                new = obj.copy(**kwargs)
            elif lab["how"] == "extent":
                x0, x1 = MASKS[lab["m"]]
                new = obj.copy_from_extent(np.array([[x0, -5.0], [x1, 50.0]]), **kwargs)
            else:
                xs = obj.vertices[:, 0]
                if self.pair in GROUPED and role == "B":
                    table = MASK_GR_SPARE if self.pair in SPARE else MASK_GR
                    keep = np.array([loop_of(self.pair, x) in table[lab["m"]] for x in xs])
                else:
                    keep = np.array([int(round(x)) in MASK_ST[lab["m"]] for x in xs])
                new = obj.copy(mask=keep, **kwargs)
        except Exception as exc:  # pylint: disable=broad-except
            failure = exc
        created = sorted((w, u) for w in (1, 2) for u in self._node_uids(w) if (w, u) not in before)
        # the returned entity first, then whatever else appeared (the partner's copy, or debris of a failed copy)
        new_key = None
        if new is not None:
            new_key = (self._ws_index(new.workspace), new.uid)
            self._register(new, new_key[0], role)
        rest = []
        for w, u in created:
            if (w, u) == new_key:
                continue
            o = self.ws[w].get_entity(u)[0]
            rest.append((w, o, "A" if type(o).__name__ == CLASSES[self.pair][0] else "B"))
        # debris of a failed copy: the copy of the entity the call was made on comes first, as in a successful copy
        rest.sort(key=lambda t: 0 if (new is None and t[2] == role) else 1)
        for w, o, r in rest:
            self._register(o, w, r)
        if failure is not None:
            raise failure
        return "none" if new is None else "ok"

    def _copy_group(self, lab):
        """Copy the container group that holds the originals; register what appeared, pair by pair."""
        from geoh5py import Workspace
        dst_ws = 1 if lab["dest"] == "same" else 2
        if self.ws[dst_ws] is None:
            self.ws[dst_ws] = Workspace.create(self.paths[dst_ws])
        before = {(w, u) for w in (1, 2) for u in self._node_uids(w)}
        failure = None
        try:
            self.group.copy(parent=self.ws[dst_ws]) if dst_ws == 2 else self.group.copy()
        except Exception as exc:  # pylint: disable=broad-except
            failure = exc
        created = sorted((w, u) for w in (1, 2) for u in self._node_uids(w) if (w, u) not in before)
        objs = {(w, u): self.ws[w].get_entity(u)[0] for w, u in created}
        role = {k: ("A" if type(o).__name__ == CLASSES[self.pair][0] else "B") for k, o in objs.items()}
        ka, kb = KEYS[self.fam]

        def partner_key(key):
            md = self._raw_from(self.ws[key[0]].geoh5, key[1])
            if isinstance(md, dict) and self.fam != "DC":
                md = md.get("EM Dataset", {})
            val = (md or {}).get(kb if role[key] == "A" else ka) if isinstance(md, dict) else None
            try:
                other = (key[0], uuid.UUID(str(val)))
            except (ValueError, TypeError):
                return None
            return other if other in objs and other != key else None

        done = []
        flip = False
        for key in [k for k in created if role[k] == "A"]:
            other = partner_key(key)
            pair = [key] + ([other] if other is not None and other not in done else [])
            done += pair[::-1] if flip else pair
            flip = True
        done += [k for k in created if k not in done]
        for key in done:
            self._register(objs[key], key[0], role[key])
        if failure is not None:
            raise failure
        return "ok"

    def layout_problems(self, closed=False):
        """The layout rules of the file format (harness/h5snap.py) on both files."""
        from .. import h5snap
        out = []
        for k in (1, 2):
            if self.ws[k] is None:
                continue
            snap = h5snap.snapshot(self.paths[k] if closed else self.ws[k].geoh5)
            out += [f"file {k}: {p}" for p in h5snap.wellformed(snap)]
        return out

    def _close_all(self):
        devnull = os.open(os.devnull, os.O_WRONLY)
        saved = os.dup(2)
        os.dup2(devnull, 2)  # Workspace.close shells out to h5repack, which is not installed here
        try:
            for w in self.ws.values():
                if w is not None:
                    w.close()
        finally:
            os.dup2(saved, 2)
            os.close(saved)
            os.close(devnull)

    def reopen(self):
        from geoh5py import Workspace
        self._close_all()
        self.closed_raw = self.raw_all_closed()
        self.closed_layout = self.layout_problems(closed=True) if self.check_layout else []
        for k in (1, 2):
            if self.ws[k] is not None:
                self.ws[k] = Workspace(self.paths[k])
        self.objs = []
        for row in self.table:
            self.objs.append(self.ws[row["ws"]].get_entity(row["uid"])[0])
        if self.group is not None:     # the container group is an object of the closed session too: fetch it again
            self.group = self.ws[1].get_entity(self.group.uid)[0]

    def close(self):
        try:
            self._close_all()
        except Exception:  # pylint: disable=broad-except
            pass
        for p in self.paths.values():
            if os.path.exists(p):
                os.unlink(p)

    # ---------------------------------------------------------------- projection onto the abstract state
    def _tok_ent(self, wsi, val):
        if val is None:
            return 0
        if isinstance(val, str):
            try:
                val = uuid.UUID(val)
            except ValueError:
                return -1
        if not isinstance(val, uuid.UUID):
            return -1
        return self._id_of(wsi, val)

    def _tok_tx(self, wsi, val):
        if val is None:
            return 0
        if isinstance(val, str):
            try:
                val = uuid.UUID(val)
            except ValueError:
                return -1
        for k, row in enumerate(self.table):
            if row["ws"] != wsi or self.objs[k] is None:
                continue
            if any(getattr(c, "uid", None) == val for c in self.objs[k].children):
                return k + 1
        return -1

    def _par(self, em):
        par = {}

        def tok(table, v):
            for t, c in table.items():
                if type(c) is type(v) and c == v:  # pylint: disable=unidiomatic-typecheck
                    return t
                if isinstance(c, float) and isinstance(v, float) and c == v:
                    return t
            return f"?{v!r}"

        known = set(KEYS[self.fam]) | {"Tx ID property", "Property groups"}
        for key, v in em.items():
            if key in known:
                if key == "Property groups" and v not in ([], None):
                    par["?Property groups"] = repr(v)
                continue
            if key == "Survey type":
                par[key] = v if isinstance(v, str) else f"?{v!r}"
            elif key == "Channels":
                par[key] = tok(CHANNELS, v) if isinstance(v, list) else f"?{v!r}"
            elif key in ("Unit", "Input type", "Custom"):
                par[key] = v if isinstance(v, str) else f"?{v!r}"
            elif key == "Loop radius":
                par[key] = tok(RADIUS, v)
            elif key == "Angles relative to bearing":
                par[key] = {True: "true", False: "false"}.get(v, f"?{v!r}") if isinstance(v, bool) else f"?{v!r}"
            elif key == "Waveform":
                if not isinstance(v, dict):
                    par["?Waveform"] = repr(v)
                    continue
                for sk, sv in v.items():
                    if sk == "Timing mark":
                        par["Waveform.Timing mark"] = tok(TIMING, sv)
                    elif sk == "Discretization":
                        try:
                            arr = [[float(r["time"]), float(r["current"])] for r in sv]
                        except Exception:  # pylint: disable=broad-except
                            arr = None
                        par["Waveform.Discretization"] = next((t for t, c in WAVE.items() if c == arr), f"?{sv!r}")
                    else:
                        par[f"?Waveform.{sk}"] = repr(sv)
            else:
                hit = False
                for op, field in OFFSETS.items():
                    if key == field + " value":
                        par[op + ".value"] = "f1" if v == 12.5 else f"?{v!r}"
                        hit = True
                    elif key == field + " property":
                        ok = v == P1 or (isinstance(v, str) and v.strip("{}") == str(P1))
                        par[op + ".property"] = "p1" if ok else f"?{v!r}"
                        hit = True
                if not hit:
                    par["?" + key] = repr(v)
        return par

    def _meta(self, wsi, md):
        if md is None:
            return {"has": False, "pa": 0, "pb": 0, "tx": 0, "par": {}}
        if not isinstance(md, dict):
            return {"has": True, "pa": -1, "pb": -1, "tx": -1, "par": {"?": repr(md)}}
        ka, kb = KEYS[self.fam]
        if self.fam == "DC":
            extra = {"?" + k: repr(v) for k, v in md.items() if k not in (ka, kb)}
            return {"has": True, "pa": self._tok_ent(wsi, md.get(ka)), "pb": self._tok_ent(wsi, md.get(kb)),
                    "tx": 0, "par": extra}
        em = md.get("EM Dataset")
        if not isinstance(em, dict):
            return {"has": True, "pa": -1, "pb": -1, "tx": -1, "par": {"?": repr(md)}}
        extra = {"?top:" + k: repr(v) for k, v in md.items() if k != "EM Dataset"}
        par = self._par(em)
        par.update(extra)
        return {"has": True, "pa": self._tok_ent(wsi, em.get(ka)), "pb": self._tok_ent(wsi, em.get(kb)),
                "tx": self._tok_tx(wsi, em.get("Tx ID property")), "par": par}

    @staticmethod
    def _raw_from(h5, uid):
        root = list(h5)[0]
        node = h5[root]["Objects"].get("{" + str(uid) + "}")
        if node is None:
            return "!missing-node"
        if "Metadata" not in node:
            return None
        v = np.r_[node["Metadata"][()]][0]
        if isinstance(v, bytes):
            v = v.decode("utf-8")
        return json.loads(v)

    def raw_all_closed(self):
        """Raw metadata of every entity read with plain h5py while both workspaces are closed."""
        import h5py
        out = []
        handles = {}
        try:
            for k in (1, 2):
                if self.ws[k] is not None:
                    handles[k] = h5py.File(self.paths[k], "r")
            for row in self.table:
                out.append(self._meta(row["ws"], self._raw_from(handles[row["ws"]], row["uid"])))
        finally:
            for h in handles.values():
                h.close()
        return out

    def _geo(self, k):
        obj = self.objs[k]
        role = self.table[k]["role"]
        if obj is None or obj.vertices is None:
            return []
        xs = obj.vertices[:, 0]
        if self.pair in GROUPED and role == "B":
            return sorted({loop_of(self.pair, x) for x in xs})
        return sorted({int(round(x)) for x in xs})

    def _refs(self, k, partner):
        """station*10 + group of the loop / dipole the station refers to, resolved through the partner object."""
        if self.pair not in GROUPED or self.table[k]["role"] != "A" or partner is None:
            return []
        obj = self.objs[k]
        attr = "ab_cell_id" if self.pair == "DC" else "tx_id_property"
        mine, theirs = getattr(obj, attr), getattr(partner, attr, None)
        stations = self._geo(k)
        if mine is None or theirs is None or mine.values is None or theirs.values is None:
            return sorted(s * 10 for s in stations)
        ids = np.asarray(mine.values)
        if self.pair == "DC":  # one id per cell (= station)
            where = [int(round(obj.vertices[c, 0].mean())) for c in obj.cells]
        else:  # one id per vertex (= station)
            where = [int(round(x)) for x in obj.vertices[:, 0]]
        tids = np.asarray(theirs.values)
        tgroups = [loop_of(self.pair, partner.vertices[c, 0].mean()) for c in partner.cells]
        out = set()
        for s, v in zip(where, ids):
            gs = {g for g, t in zip(tgroups, tids) if t == v}
            out.add(s * 10 + (gs.pop() if len(gs) == 1 else 0))
        return sorted(out)

    def observe(self, lazy=False):
        """Projection of every entity.  First pass: live metadata and the raw stored metadata of ALL entities, without
        touching any partner getter; second pass (skipped when lazy): the getters, which fill the lazy partner caches
        (`_receivers`, `_transmitters`, ...).  Lazy observations are used on the already verified prefix of a path so
        that the next action runs on objects whose caches only the library itself has filled."""
        ents = []
        for k, row in enumerate(self.table):
            obj = self.objs[k]
            wsi = row["ws"]
            if obj is None:
                ents.append({"role": row["role"], "ws": wsi, "missing": True})
                continue
            try:
                file = self._meta(wsi, self._raw_from(self.ws[wsi].geoh5, row["uid"]))
            except Exception as exc:  # pylint: disable=broad-except
                file = {"error": type(exc).__name__}
            try:
                live = self._meta(wsi, obj.metadata)
            except Exception as exc:  # pylint: disable=broad-except
                live = {"error": type(exc).__name__}
            ents.append({"role": row["role"], "ws": wsi, "live": live, "file": file, "geo": self._geo(k),
                         "wsobj": self._ws_index(obj.workspace), "lazy": True})
        if lazy:
            return ents
        for k, row in enumerate(self.table):
            obj = self.objs[k]
            if obj is None:
                continue
            partner = None
            if CLASSES[self.pair][1] is None:
                ptr = 0
            else:
                try:
                    partner = getattr(obj, ATTRS[self.fam][row["role"]])
                    ptr = self._id_of_obj(partner)
                except Exception as exc:  # pylint: disable=broad-except
                    ptr = f"!{type(exc).__name__}"
            try:
                own = self._id_of_obj(getattr(obj, ATTRS[self.fam]["own" + row["role"]]))
            except Exception as exc:  # pylint: disable=broad-except
                own = f"!{type(exc).__name__}"
            try:
                refs = self._refs(k, partner)
            except Exception as exc:  # pylint: disable=broad-except
                refs = [f"!{type(exc).__name__}"]
            ents[k].update({"ptr": ptr, "own": own, "refs": refs, "lazy": False})
        return ents


# ------------------------------------------------------------------------------------------ comparison
def _norm_meta(m, fam):
    """Observed metadata record -> comparable form ('absent' entries dropped)."""
    par = m.get("par") or {}
    par = {k: v for k, v in par.items() if v != "absent"}
    if not m.get("has"):
        return {"has": False}
    return {"has": True, "pa": m.get("pa"), "pb": m.get("pb"), "tx": m.get("tx") if fam == "em" else 0, "par": par}


def _expand_meta(m, defpar, fam):
    """Metadata record as exported by TLC (parameters as difference from the defaults) -> comparable form."""
    if not m.get("has"):
        return {"has": False}
    par = dict(defpar)
    d = m.get("d") or {}
    if isinstance(d, dict):
        par.update(d)
    par = {k: v for k, v in par.items() if v != "absent" and k != "-"}
    return {"has": True, "pa": m["pa"], "pb": m["pb"], "tx": m["tx"] if fam == "em" else 0, "par": par}


def norm_expected(ents, fam, defpar, lazy=False):
    out = []
    for k, e in enumerate(ents):
        live = _expand_meta(e["live"], defpar, fam)
        file = live if e["file"].get("same") else _expand_meta(e["file"], defpar, fam)
        d = {"role": e["role"], "ws": e["ws"], "live": live, "file": file, "geo": sorted(e["geo"])}
        if not lazy:
            d.update({"ptr": e["ptr"], "refs": sorted(e["refs"]), "own": k + 1})
        out.append(d)
    return out


def norm_observed(ents, fam):
    out = []
    for e in ents:
        if e.get("missing"):
            out.append({"role": e["role"], "ws": e["ws"], "missing": True})
            continue
        live = e["live"] if "error" in e["live"] else _norm_meta(e["live"], fam)
        file = e["file"] if "error" in e["file"] else _norm_meta(e["file"], fam)
        d = {"role": e["role"], "ws": e["ws"], "live": live, "file": file, "geo": e["geo"]}
        if not e["lazy"]:
            d.update({"ptr": e["ptr"], "refs": e["refs"], "own": e["own"]})
        if e["wsobj"] != e["ws"]:
            d["wsobj"] = e["wsobj"]
        out.append(d)
    return out


def diff(exp, got):
    """First differences as (entity id, field, expected, got)."""
    out = []
    if len(exp) != len(got):
        out.append((0, "entities", len(exp), len(got)))
    for k, (a, b) in enumerate(zip(exp, got)):
        for f in sorted(set(a) | set(b)):
            if a.get(f) != b.get(f):
                if f in ("live", "file") and isinstance(a.get(f), dict) and isinstance(b.get(f), dict):
                    for g in sorted(set(a[f]) | set(b[f])):
                        if a[f].get(g) != b[f].get(g):
                            if g == "par" and isinstance(a[f].get(g), dict) and isinstance(b[f].get(g), dict):
                                for h in sorted(set(a[f][g]) | set(b[f][g])):
                                    if a[f][g].get(h) != b[f][g].get(h):
                                        out.append((k + 1, f"{f}.par.{h}", a[f][g].get(h, "absent"),
                                                    b[f][g].get(h, "absent")))
                            else:
                                out.append((k + 1, f"{f}.{g}", a[f].get(g), b[f].get(g)))
                else:
                    out.append((k + 1, f, a.get(f), b.get(f)))
    return out


def classify(lab, pre, exp, got, d):
    """A stable signature naming the mechanism that failed."""
    act = lab["act"]
    if d and d[0][1] == "entities":
        if act in ("Copy", "CopyGroup"):
            return "copy-does-not-copy-partner" if d[0][3] < d[0][2] else "copy-creates-extra-entities"
        return f"{act.lower()}-changes-entity-count"
    fields = {f.split(".par.")[0] if ".par." in f else f for _, f, _, _ in d}
    who = {k for k, _, _, _ in d}
    n_pre = len(pre)
    if act in ("Copy", "CopyGroup"):
        new_ids = {k for k in who if k > n_pre}
        if who - new_ids:
            return "copy-modifies-existing-entities"
        if any(f == "ptr" or f.endswith(".pa") or f.endswith(".pb") for _, f, _, _ in d):
            for k, f, _, b in d:
                if f == "ptr" and isinstance(b, int) and 0 < b <= n_pre:
                    return "copy-linked-to-original"
            return "copy-partners-not-linked-to-each-other"
        if any(f in ("geo", "refs") for _, f, _, _ in d):
            return "copy-partner-geometry-not-what-receivers-refer-to"
        if all(f.startswith("file") for f in fields):
            return "copy-metadata-not-stored"
        return "copy-metadata-differs"
    if act == "Reopen":
        if "ptr" in fields or "own" in fields:
            return "partner-not-resolved-after-reopen"
        return "metadata-differs-after-reopen"
    if act == "LinkFrom":
        if any(f.endswith(".pa") or f.endswith(".pb") or f == "ptr" for _, f, _, _ in d):
            return "link-identifiers-not-on-both"
        if all(f.startswith("file") for f in fields):
            return "link-metadata-not-stored"
        return "link-metadata-differs"
    if act == "Edit":
        i = lab["i"]
        partner = pre[i - 1]["ptr"] if i - 1 < len(pre) else 0
        if who - {i, partner}:
            return "edit-reaches-unrelated-entity"
        if all(f.startswith("file") for f in fields):
            return "edit-not-stored"
        if who == {partner}:
            return "edit-not-propagated-to-partner"
        if who == {i}:
            return "edit-not-applied-on-edited-side"
        return "edit-result-differs"
    return f"{act.lower()}-state-mismatch"


# ------------------------------------------------------------------------------------------ replay of one path
def _replay(item):  # pylint: disable=too-many-locals
    pair, cfg, init, steps, defpar = item["pair"], item["cfg"], item["init"], item["steps"], item["defpar"]
    fam = "em" if family(pair) in ("em", "TIP") else "DC"
    lazy_upto = item.get("lazy_upto", 0)
    stats = {"steps": 0, "acts": {}, "copies2": 0, "reopens": 0, "closed_raw_checks": 0, "lazy": 0, "layouts": 0,
             "cold_edits": 0, "relinks": 0, "cpu": time.process_time()}
    cold = False  # no partner getter was called by the harness since the last Reopen / LinkFrom
    viol = []

    def bad(sig, msg, upto):
        viol.append({"signature": sig, "summary": f"[{pair}/{cfg}] {msg}",
                     "case": {"pair": pair, "cfg": cfg, "defpar": defpar, "init": init, "steps": steps[:upto + 1],
                              "lazy_upto": min(lazy_upto, upto + 1), "idingroup": bool(item.get("idingroup")),
                              "ingroup": bool(item.get("ingroup")), "layout": bool(item.get("layout"))}})

    world = World(pair, f"{os.getpid()}", n_orig=item.get("n_orig", len(init["ents"])),
                  idingroup=bool(item.get("idingroup")), ingroup=bool(item.get("ingroup")))
    world.check_layout = bool(item.get("layout"))
    try:
        pre = norm_expected(init["ents"], fam, defpar)
        got = norm_observed(world.observe(), fam)
        d = diff(pre, got)
        if d:
            bad("initial-state-differs", f"freshly created surveys differ from the specification's initial state: {d[:4]}", -1)
            return viol, stats
        for n, st in enumerate(steps):
            lab, exp_state = st["last"], st["expect"]
            # steps of the prefix were compared in full by the path that covers them: here only metadata (live + raw)
            # and geometry are compared and NO partner getter is called, so that the next action meets caches in the
            # state the library left them in.  Edges with a named deviation are always compared in full.
            lazy = n < lazy_upto and not lab.get("alt")
            if lab["act"] == "LinkFrom" and _names_other(pre, lab):
                stats["relinks"] += 1
            if lab["act"] == "Edit" and cold:
                stats["cold_edits"] += 1
            out = world.do(lab)
            stats["steps"] += 1
            stats["acts"][lab["act"]] = stats["acts"].get(lab["act"], 0) + 1
            out_kind = out.split(":")[0]
            exp = norm_expected(exp_state["ents"], fam, defpar, lazy)
            got = norm_observed(world.observe(lazy), fam)
            if lazy:
                stats["lazy"] += 1
                if lab["act"] in ("Reopen", "LinkFrom"):
                    cold = True
            else:
                cold = False
            if lab["act"] == "Reopen" and out_kind == "ok":
                stats["reopens"] += 1
                # the files were read with plain h5py while closed: must equal the expected file metadata
                closed = [_norm_meta(m, fam) for m in world.closed_raw]
                stats["closed_raw_checks"] += len(closed)
                want = [e["file"] for e in exp]
                if closed != want:
                    got = [dict(g, file=c) if isinstance(g, dict) and "file" in g else g for g, c in zip(got, closed)]
            d = diff(exp, got) if out_kind == lab["out"] else [(-1, "outcome", lab["out"], out)]
            if not d and world.check_layout and not lazy and out_kind == "ok" and \
                    lab["act"] in ("Copy", "CopyGroup", "Reopen"):
                # the abstract state is as specified: the stored files must also obey the layout rules of the format
                probs = world.closed_layout if lab["act"] == "Reopen" else world.layout_problems()
                stats["layouts"] += 1
                if probs:
                    hist = " ; ".join(_show(s["last"]) for s in steps[:n + 1])
                    sig = "copy-stores-property-group-listing-data-that-is-not-a-child" \
                        if any("property group" in q for q in probs) else f"file-layout-invalid-after-{lab['act'].lower()}"
                    bad(sig, f"after {hist}: {'; '.join(probs[:4])}", n)
                    return viol, stats
            if not d:
                if lab["act"] in ("Copy", "CopyGroup") and len(exp) == len(pre) + 2:
                    stats["copies2"] += 1
                pre = norm_expected(exp_state["ents"], fam, defpar)
                continue
            hist = " ; ".join(_show(s["last"]) for s in steps[:n + 1])
            if lab.get("alt"):
                # the own-role getter answers from a lazy cache too (filled or not depending on what ran before): it is
                # not part of the deviation's prediction
                alt = [{k: v for k, v in e.items() if k != "own"} for e in norm_expected(lab["alt"], fam, defpar, lazy)]
                got_alt = [{k: v for k, v in e.items() if k != "own"} for e in got]
                if out_kind == lab.get("altout", lab["out"]) and not diff(alt, got_alt):
                    sig = SIGNATURES[lab["dev"]]
                    bad(sig, f"after {hist}: the implementation does exactly what the named deviation {lab['dev']} "
                             f"of the specification predicts instead of the specified result; differences from the "
                             f"specified state: {_fmt(diff(exp, got)) if out_kind == lab['out'] else out}", n)
                    return viol, stats
            if d[0][1] == "outcome":
                sig = f"{lab['act'].lower()}-outcome-{lab['out']}-expected-got-{out_kind}"
                if lab["act"] == "Edit":
                    sig = f"setter-{lab['op']}-{'accepts' if out_kind == 'ok' else 'rejects'}-unexpectedly"
                bad(sig, f"after {hist}: outcome {out}, the specification says {lab['out']}", n)
            else:
                bad(classify(lab, pre, exp, got, d), f"after {hist}: {_fmt(d)}", n)
            return viol, stats
    finally:
        world.close()
    return viol, stats


def _names_other(pre, lab):
    """The link takes an entity over: s or o already records somebody else as its partner."""
    s, o = lab["i"], lab["j"]
    def partner(k):
        m = pre[k - 1]["live"]
        if not m.get("has"):
            return 0
        return m["pb"] if pre[k - 1]["role"] == "A" else m["pa"]
    return partner(s) not in (0, o) or partner(o) not in (0, s)


def _show(lab):
    a = lab["act"]
    if a == "LinkFrom":
        return f"LinkFrom({lab['i']}->{lab.get('j', 3 - lab['i'])})"
    if a == "Edit":
        return f"Edit({lab['i']},{lab['op']}={lab['val']})"
    if a == "CopyGroup":
        return f"CopyGroup({lab['dest']})"
    if a == "Copy":
        return f"Copy({lab['i']},{lab['how']}{'' if lab['m'] == '-' else ':' + lab['m']},{lab['dest']})"
    return a


def _fmt(d):
    return "; ".join(f"entity {k} {f}: specified {a!r}, implementation {b!r}" for k, f, a, b in d[:6])


def _replay_safe(item):
    v, st = _replay(item)
    st["cpu"] = time.process_time() - st["cpu"]
    return v, st


# ------------------------------------------------------------------------------------------ driver
def _explore(cfg):
    try:
        res = tlc.run_tlc(SPEC_DIR, MODULE, cfg, workers=1, heap="4g", timeout=1500)
    except MachineryError as exc:  # a JVM killed on an overloaded machine: one more attempt, then give up
        if "did not finish cleanly" not in str(exc):
            raise
        res = tlc.run_tlc(SPEC_DIR, MODULE, cfg, workers=1, heap="4g", timeout=1500)
    if not res.ok:
        raise MachineryError(f"TLC reports {res.violated} on {MODULE}/{cfg}: the specification violates its own "
                             f"invariants\n{res.raw_tail[-1500:]}")
    g = tlc.build_graph(res.lines)
    init = graph.split_init(res.lines)
    head = [obj for t, _, obj in res.lines if t == "CASE"]
    if len(init) != 1 or not g.edges or len(head) != 1:
        raise MachineryError(f"{cfg}: unexpected export ({len(init)} initial states, {len(g.edges)} edges)")
    res.lines = []
    return res, g, init, head[0]


def cover(g, init, rng=None, max_len=14):
    """Paths from the initial state covering every edge.  Edges on which a named deviation of the specification
    applies ("alt" exported) end their path whenever the rest of the graph can be reached without them, because the
    replay of a path stops where the implementation follows the deviation."""
    from collections import defaultdict, deque
    edges = g.edges
    dev = [bool(e[2].get("alt")) for e in edges]
    out = defaultdict(list)
    for i, (s, _, _) in enumerate(edges):
        out[s].append(i)

    def bfs(allow_dev):
        dist, pred = {init[0]: 0}, {}
        dq = deque([init[0]])
        while dq:
            u = dq.popleft()
            for i in out[u]:
                if dev[i] and not allow_dev:
                    continue
                v = edges[i][1]
                if v not in dist:
                    dist[v] = dist[u] + 1
                    pred[v] = i
                    dq.append(v)
        return dist, pred

    dist_c, pred_c = bfs(False)
    dist_a, pred_a = bfs(True)

    def prefix(u):
        pred = pred_c if u in dist_c else pred_a
        p = []
        while u != init[0]:
            i = pred[u]
            p.append(i)
            u = edges[i][0]
        return p[::-1]

    unreachable = [i for i in range(len(edges)) if edges[i][0] not in dist_a]
    covered = [False] * len(edges)
    order = sorted((i for i in range(len(edges)) if edges[i][0] in dist_a),
                   key=lambda i: (dev[i], -dist_a[edges[i][0]], i))
    if rng is not None:
        clean = [i for i in order if not dev[i]]
        rng.shuffle(clean)
        clean.sort(key=lambda i: -dist_a[edges[i][0]])
        order = clean + [i for i in order if dev[i]]
    paths = []
    prefix_len = []
    blocked = 0
    for i in order:
        if covered[i]:
            continue
        pre_edges = prefix(edges[i][0])
        prefix_len.append(len(pre_edges))
        p = pre_edges + [i]
        covered[i] = True
        cur = edges[i][1]
        while not dev[i] and len(p) < max_len:
            nxt = [j for j in out[cur] if not covered[j] and not dev[j]]
            if not nxt:
                break
            j = nxt[0]
            covered[j] = True
            p.append(j)
            cur = edges[j][1]
        blocked += sum(1 for k, j in enumerate(p[:-1]) if dev[j])
        paths.append(p)
    return paths, prefix_len, sum(covered), unreachable, blocked


def _items(pair, cfg, g, init, head, seed):
    defpar = head["defpar"]
    layout = cfg.split("_")[-1] in LAYOUT_FLAVOURS
    import random
    paths, prefix_len, covered, unreachable, blocked = cover(g, init, rng=random.Random(seed) if seed else None)
    if unreachable or covered != len(g.edges):
        raise MachineryError(f"{cfg}: path cover misses edges ({covered}/{len(g.edges)}, {len(unreachable)} unreachable)")
    items = []
    for p, npre in zip(paths, prefix_len):
        steps = [{"last": g.edges[i][2], "expect": g.states[g.edges[i][1]]} for i in p]
        items.append({"pair": pair, "cfg": cfg, "defpar": defpar, "init": g.states[init[0]], "steps": steps,
                      "lazy_upto": npre, "idingroup": bool(head.get("idingroup")), "ingroup": bool(head.get("ingroup")),
                      "layout": layout})
    return items, blocked


def run(tier, seed):  # pylint: disable=too-many-locals,too-many-statements
    t0 = time.time()
    cfgs = [(pair, f"{pair}_{fl}.cfg") for pair in PAIRS for fl in FLAVOURS[tier]]
    cfgs += [(pair, f"{pair}_{fl}.cfg") for pair, fl in RELINK[tier] + SPECIAL[tier]]
    threads = max(1, min(6, int(os.environ.get("VERIF_PROCS", "16")) // 2))
    with ThreadPoolExecutor(threads) as ex:
        neg_futures = [ex.submit(tlc.run_tlc, SPEC_DIR, MODULE, cfg, workers=1, heap="2g", keep_lines=False,
                                 timeout=900) for cfg, _ in NEGATIVE]
        explored = list(ex.map(lambda pc: _explore(pc[1]), cfgs))
        neg_results = [f.result() for f in neg_futures]
    tlc_wall = time.time() - t0
    states = trans = blocked_total = 0
    items = []
    per_cfg = {}
    for (pair, cfg), (res, g, init, head) in zip(cfgs, explored):
        states += res.distinct
        trans += res.generated
        its, blocked = _items(pair, cfg, g, init, head, seed)
        items += its
        blocked_total += blocked
        n_alt = sum(1 for e in g.edges if e[2].get("alt"))
        per_cfg[cfg] = {"states": res.distinct, "transitions": res.generated, "edges": len(g.edges),
                        "paths": len(its), "edges_where_a_named_deviation_applies": n_alt,
                        "tlc_wall_s": round(res.wall_s, 1)}
    del explored
    # long paths first: better load balance
    order = sorted(range(len(items)), key=lambda k: -len(items[k]["steps"]))
    t1 = time.time()
    out = pmap(_replay_safe, [items[k] for k in order], chunksize=4)
    replay_wall = time.time() - t1
    viol = []
    acts = {}
    steps = copies2 = reopens = closed_checks = planned = lazy_steps = cold_edits = relinks = layouts = 0
    by_pair = {}
    for k, (v, st) in zip(order, out):
        viol += v
        planned += len(items[k]["steps"])
        steps += st["steps"]
        copies2 += st["copies2"]
        reopens += st["reopens"]
        closed_checks += st["closed_raw_checks"]
        lazy_steps += st["lazy"]
        layouts += st["layouts"]
        cold_edits += st["cold_edits"]
        relinks += st["relinks"]
        for a, c in st["acts"].items():
            acts[a] = acts.get(a, 0) + c
            bp = by_pair.setdefault(items[k]["pair"], {})
            bp[a] = bp.get(a, 0) + c
    for pair in PAIRS:
        need = {"Copy", "Reopen"} | ({"LinkFrom"} if pair != "MT" else set()) | ({"Edit"} if pair != "DC" else set())
        if not need <= set(by_pair.get(pair, {})):
            raise MachineryError(f"vacuous: {pair} never exercised {need - set(by_pair.get(pair, {}))}")
    if copies2 == 0 or reopens == 0 or cold_edits == 0 or relinks == 0:
        raise MachineryError("vacuous: no copy of a linked pair / re-open / edit on cold partner caches / take-over link "
                             "was replayed")
    negs = []
    for (cfg, expected), res in zip(NEGATIVE, neg_results):
        if not set(res.violated) & expected:
            raise MachineryError(f"negative control {cfg}: expected one of {sorted(expected)} to be violated, "
                                 f"got {res.violated}")
        negs.append(f"{cfg}: {sorted(set(res.violated) & expected)[0]} violated")
    sample = items[order[len(order) // 2]]
    return {
        "level": "model_checking",
        "violations": viol,
        "coverage": {
            "states": states, "transitions": trans, "traces_validated_against_impl": len(items),
            "actions_replayed": steps, "actions_planned": planned,
            "actions_after_a_deviation_edge_on_the_only_route": blocked_total,
            "actions_by_kind": acts, "actions_by_pair": by_pair,
            "linked_pair_copies_checked": copies2, "reopens_checked": reopens,
            "prefix_actions_compared_without_calling_partner_getters": lazy_steps,
            "edits_applied_on_cold_partner_caches": cold_edits, "take_over_links_replayed": relinks,
            "file_layout_checks": layouts,
            "raw_metadata_reads_while_closed": closed_checks,
            "class_pairs": len(PAIRS), "configs": per_cfg,
            "samples": [{"pair": sample["pair"], "cfg": sample["cfg"],
                         "history": [_show(s["last"]) for s in sample["steps"]],
                         "final_state": sample["steps"][-1]["expect"]}],
            "exhaustive": True, "tlc_wall_s": round(tlc_wall, 1), "replay_wall_s": round(replay_wall, 1),
            "negative_controls": negs,
            "rule": "per class pair TLC explores every history of LinkFrom/Edit/Copy/Reopen within the cfg bounds, "
                    "checks Mutual, BothIds, SharedEqual, TxIdKept, WriteThrough, Resolvable, CopiesPaired, GroupsExact "
                    "and the action properties LinkSticks, ReopenResolves, CopyCopiesPartner, EditIsLocal, RefusedIsNoop, ValidEditsAccepted, "
                    "and exports the state graph; every edge is replayed (path cover) on survey objects in .geoh5 files "
                    "and after every action live metadata, raw Metadata JSON (plain h5py), partner getters, geometry "
                    "and loop references of every entity are compared with the state TLC computed; on the already verified "
                    "prefix of a path only live and raw metadata and geometry are compared and no partner getter is called, "
                    "so that the following action meets the partner caches as the library left them; a replay stops at "
                    "the first difference",
        },
        "assumptions": [
            "bounds: spec/survey/*_qs.cfg, *_qe.cfg (quick) and additionally *_ts.cfg, *_te.cfg (thorough), written by "
            "spec/survey/gen_cfgs.py: histories of 3-5 actions, <= 2 copies, <= 2 edits, <= 1 (DC/MT: 2) re-opens, 1-2 accepted values "
            "per setter, 4 stations and 2 loops / dipoles, masks lo (and mid)",
            "a history edits through one group of setters (channels / unit+input type / waveform+timing mark / loop radius / "
            "one offset / bearing flag / free keys); all setters end in the same edit_em_metadata",
            "quick: the setters implemented in shared base classes are spread over the class pairs, every pair exercises "
            "channels, unit and input_type; thorough: every setter on every pair",
            "surveys are well formed: large-loop and DC pairs carry their Transmitter ID / A-B Cell ID data before linking; "
            "masks are aligned with whole loops / dipoles; the EM metadata entry 'Property groups' stays empty; LLFEM has a "
            "third transmitter loop no receiver refers to",
            "re-linking (second A / B object), a property group holding the linking data (with the h5snap layout oracle) and "
            "copies of the group holding the pair are explored in dedicated small configurations (qr, qi, qg) for DC, AFEM, LLFEM",
            "plain h5py and TLC are trusted; value-map labels of copied Transmitter ID / A-B Cell ID data are not compared",
        ],
    }


def replay(doc):
    case = doc["case"]
    v, st = _replay(case)
    return {"violations": v, "coverage": {"replayed": 1, "actions_replayed": st["steps"]}}
