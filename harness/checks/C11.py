"""C11 - decided by spec/core/Geoh5Core.tla (TLC) + replay of the exported state graph (harness/core_replay.py)."""
from ..core_check import make

run, replay = make("C11", ["C11_quick.cfg", "C11ro_quick.cfg"], ["C11_thorough.cfg", ("Sim_all.cfg", {"num": 150, "depth": 30})],
                   "Close (close(), with-exit, exception escaping the with-block) at every reachable state, calls on the closed workspace, re-open: open HDF5 identifiers counted after every close, dedicated error class required, file compared with the specification", neg=None,
                   concat=[("DrillholeConcatExportFlags.cfg", 21, None)])
