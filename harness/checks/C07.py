"""C07 - data stay aligned with the geometry they are attached to.  Spec: spec/align/VertexCellAlign.tla

TLC explores the state machine of one Points / Curve / Surface object (AddData, SetValues,
RemoveVertices, RemoveCells, MaskedCopy, Reopen and their refused variants), checks the alignment
invariants on the specification and exports the state graph.  A path cover of that graph is replayed
on real objects in real .geoh5 files; after every action the outcome and the whole observable state
(vertices, cells, every child's values) are compared with the state TLC computed.

Verdict of one transition, exactly as the property is worded:
  * specified "ok", implementation returns   -> canonical state must equal the specified state
  * implementation raises                    -> geometry and data must still be mutually consistent and
                                                survivors must keep values / coordinates (no atomicity
                                                demanded); if the spec said "ok" the failure itself is
                                                reported unless it is a known as-built refusal that leaves
                                                a consistent state
  * specified "refused", implementation returns -> reported
A mismatch that equals the prediction TLC printed for a named as-built deviation gets that
deviation's signature; anything else gets a generic one.
"""
from __future__ import annotations

import json
import multiprocessing as mp
import os
import random
import re
import time
from collections import Counter
from concurrent.futures import ThreadPoolExecutor

import numpy as np

from .. import graph as graphmod
from ..align_cover import tour_cover
from .. import tlc
from ..pool import pmap, scratch
from ..tlc import MachineryError

SPEC_DIR = "align"
MODULE = "VertexCellAlign"
CLASSES = {0: "Points", 2: "Curve", 3: "Surface"}
KINDS = ["FLOAT", "INTEGER", "BOOLEAN"]
INT_NDV = -2147483648
MAX_PATH_LEN = {"quick": 12, "thorough": 40}
KEEP_PER_SIGNATURE = 3

# (cfg, arity, max number of paths replayed or None = whole cover)
CFG = {
    "quick": [("PointsQuick.cfg", 0, None), ("Curve2Quick.cfg", 2, None), ("CurveQuick.cfg", 2, None),
              ("SurfaceQuick.cfg", 3, None)],
    "thorough": [("PointsThorough.cfg", 0, None), ("Curve2Quick.cfg", 2, None), ("CurveThorough.cfg", 2, 8000),
                 ("Curve4Thorough.cfg", 2, 10000), ("CurveIx3Thorough.cfg", 2, None),
                 ("CurveOrientThorough.cfg", 2, None), ("SurfaceThorough.cfg", 3, 10000),
                 ("SurfaceOrientThorough.cfg", 3, None)],
}
NEGATIVE = {
    "quick": [("NegNoTouchRaises.cfg", "CellsJoinSameCoords"), ("NegValuelessChild.cfg", "LengthsAgree"),
              ("NegGrowKeepsCachedLength.cfg", "LengthsAgree")],
    "thorough": [("NegNoTouchRaises.cfg", "CellsJoinSameCoords"), ("NegValuelessChild.cfg", "LengthsAgree"),
                 ("NegZombieChain.cfg", "LengthsAgree"), ("NegEmptyUnreadable.cfg", "LengthsAgree"),
                 ("NegGrowKeepsCachedLength.cfg", "LengthsAgree")],
}
# as-built deviations named in the spec
DEVIATIONS = ["NoTouchRaises", "ValuelessChildBreaksRemoval", "RefusedAddLeavesChild", "EmptyValuesUnreadable",
              "GrowKeepsCachedLength"]


# ------------------------------------------------------------------ tokens <-> concrete values
def coord(tok):
    return (float(tok), 0.5 * tok + 0.25, -2.0 * tok)


_TOK = {coord(t): t for t in range(1, 10)}


# dtype of the arrays handed to geoh5py, per data kind: the caller's dtype must not matter (padding with the
# no-data value has to survive narrow integer inputs, float32, ...).  `turn` rotates through them.
SOURCE_DTYPES = {"FLOAT": ["float64", "float32"], "INTEGER": ["int32", "uint8", "int64", "int16"],
                 "BOOLEAN": ["bool"]}


def concrete(tokens, kind, turn=0):
    """numpy array handed to geoh5py for a sequence of value tokens (NDV token = -1)."""
    if kind == "FLOAT":
        dtype = SOURCE_DTYPES[kind][turn % 2]
        return np.array([np.nan if t < 0 else t + 0.5 for t in tokens], dtype=dtype)  # k + 0.5 is exact in float32
    if kind == "INTEGER":
        if any(t < 0 for t in tokens):
            dtype = ["int32", "int64"][turn % 2]  # only these can hold the integer no-data value
        else:
            dtype = SOURCE_DTYPES[kind][turn % 4]
            if dtype == "uint8" and any(t > 255 for t in tokens):
                dtype = "int16"
        return np.array([INT_NDV if t < 0 else t for t in tokens], dtype=dtype)
    return np.array([False if t < 0 else bool(t % 2) for t in tokens], dtype=bool)


def norm_expected(tok, kind):
    if kind == "BOOLEAN":
        return False if tok < 0 else bool(tok % 2)
    if tok < 0:
        return "ndv"
    return tok + 0.5 if kind == "FLOAT" else int(tok)


def norm_observed(values):
    arr = np.asarray(values)
    if arr.ndim != 1:
        return f"shape{arr.shape}"
    if arr.dtype == bool:
        return [bool(x) for x in arr]
    if np.issubdtype(arr.dtype, np.integer):
        return ["ndv" if int(x) == INT_NDV else int(x) for x in arr]
    if np.issubdtype(arr.dtype, np.floating):
        return ["ndv" if np.isnan(x) else float(x) for x in arr]
    return [str(x) for x in arr]


# ------------------------------------------------------------------ normalised states
def ns_from_spec(st, kinds):
    data, zombies = {}, []
    for rec in st["data"]:
        if rec["name"] == 0:
            zombies.append(rec["assoc"])
            continue
        name = f"d{rec['name']}"
        if not rec["has"]:
            vals = None
        elif not rec["rd"]:
            vals = "unreadable"
        else:
            vals = [norm_expected(t, kinds[name]) for t in rec["vals"]]
        data[name] = {"assoc": rec["assoc"], "vals": vals}
    return {"verts": [int(t) for t in st["verts"]], "cells": [[int(i) for i in c] for c in st["cells"]],
            "data": data, "zombies": sorted(zombies)}


def observe(obj, arity):
    from geoh5py.data import Data
    ns = {"data": {}, "zombies": []}
    try:
        v = obj.vertices
        ns["verts"] = [] if v is None else [_TOK.get(tuple(float(x) for x in row), "?" + repr(row.tolist())) for row in v]
    except Exception as exc:  # pylint: disable=broad-except
        ns["verts"] = f"unreadable:{type(exc).__name__}"
    ns["cells"] = []
    if arity:
        try:
            c = obj.cells
            ns["cells"] = [] if c is None else [[int(i) for i in row] for row in np.asarray(c).reshape(-1, arity)]
        except Exception as exc:  # pylint: disable=broad-except
            ns["cells"] = f"unreadable:{type(exc).__name__}"
    for child in obj.children:
        if not isinstance(child, Data) or child.association is None or child.association.name not in ("VERTEX", "CELL"):
            continue
        try:
            vals = child.values
            vals = None if vals is None else norm_observed(vals)
        except Exception:  # pylint: disable=broad-except
            vals = "unreadable"
        name = child.name
        if re.fullmatch(r"d\d", name or "") and name not in ns["data"]:
            ns["data"][name] = {"assoc": child.association.name, "vals": vals}
        elif vals is None:
            ns["zombies"].append(child.association.name)
        else:
            ns["data"]["?" + str(name) + str(len(ns["data"]))] = {"assoc": child.association.name, "vals": vals}
    ns["zombies"].sort()
    return ns


def inconsistency(ns, arity):
    """First facet on which geometry and data are NOT mutually consistent, or None."""
    verts, cells = ns["verts"], ns["cells"]
    if not isinstance(verts, list) or any(not isinstance(t, int) for t in verts) or len(set(verts)) != len(verts):
        return "vertices"
    if not isinstance(cells, list):
        return "cells"
    for c in cells:
        if len(c) != arity or any(i < 0 or i >= len(verts) for i in c):
            return "cell-range"
    for d in ns["data"].values():
        if d["vals"] is None:
            continue
        if not isinstance(d["vals"], list):
            return "unreadable"
        if len(d["vals"]) != (len(verts) if d["assoc"] == "VERTEX" else len(cells)):
            return "lengths"
    return None


def _key(x):
    return json.dumps(x, sort_keys=True)


def canon(ns):
    """Order-free content of a consistent state: what the property talks about."""
    data = ns["data"]
    vn = sorted(n for n, d in data.items() if d["assoc"] == "VERTEX" and isinstance(d["vals"], list))
    cn = sorted(n for n, d in data.items() if d["assoc"] == "CELL" and isinstance(d["vals"], list))
    children = sorted([n, d["assoc"], isinstance(d["vals"], list)] for n, d in data.items())
    vert_vals = sorted(([t, [[n, data[n]["vals"][i]] for n in vn]] for i, t in enumerate(ns["verts"])), key=_key)
    cell_toks = sorted((sorted(ns["verts"][j] for j in c) for c in ns["cells"]), key=_key)
    cell_vals = sorted(([sorted(ns["verts"][j] for j in c), [[n, data[n]["vals"][i]] for n in cn]]
                        for i, c in enumerate(ns["cells"])), key=_key)
    return {"children": children, "vertices": sorted(ns["verts"]), "vertex-values": vert_vals,
            "cell-coords": cell_toks, "cell-values": cell_vals}


def difference(impl, spec, arity):
    """First facet on which a returned (ok) result differs from the specified state, or None."""
    bad = inconsistency(impl, arity)
    if bad:
        return bad
    a, b = canon(impl), canon(spec)
    for facet in ("children", "vertices", "vertex-values", "cell-coords", "cell-values"):
        if a[facet] != b[facet]:
            return facet
    return None


def fail_inconsistency(pre, impl, arity):
    """After a raising operation: consistent, and survivors keep coordinates and values (no atomicity)."""
    bad = inconsistency(impl, arity)
    if bad:
        return bad
    pre_tok = {t: i for i, t in enumerate(pre["verts"])}
    if any(t not in pre_tok for t in impl["verts"]):
        return "vertices"
    shared = [n for n, d in impl["data"].items() if isinstance(d["vals"], list) and n in pre["data"]
              and isinstance(pre["data"][n]["vals"], list) and pre["data"][n]["assoc"] == d["assoc"]]
    for n in shared:
        if impl["data"][n]["assoc"] != "VERTEX":
            continue
        for i, t in enumerate(impl["verts"]):
            if impl["data"][n]["vals"][i] != pre["data"][n]["vals"][pre_tok[t]]:
                return "vertex-values"
    cshared = [n for n in shared if impl["data"][n]["assoc"] == "CELL"]
    pool = [[sorted(pre["verts"][j] for j in c), {n: pre["data"][n]["vals"][i] for n in cshared}]
            for i, c in enumerate(pre["cells"])]
    for i, c in enumerate(impl["cells"]):
        toks = sorted(impl["verts"][j] for j in c)
        cand = [p for p in pool if p[0] == toks]
        if not cand:
            return "cell-coords"
        vals = {n: impl["data"][n]["vals"][i] for n in cshared}
        hit = [p for p in cand if p[1] == vals]
        if not hit:
            return "cell-values"
        pool.remove(hit[0])
    return None


# ------------------------------------------------------------------ driving geoh5py
def build(ws, cls, arity, st, kinds, tag, turn=0):
    """Create an object that is in the specification state `st`."""
    kw = {"vertices": np.array([coord(t) for t in st["verts"]], dtype=float).reshape(-1, 3), "name": f"obj{tag}"}
    if arity:
        kw["cells"] = np.array(st["cells"], dtype="int32").reshape(-1, arity)
    obj = cls.create(ws, **kw)
    for rec in st["data"]:
        name = f"d{rec['name']}"
        attr = {"association": rec["assoc"], "type": kinds[name]}
        if rec["has"]:
            attr["values"] = concrete(rec["vals"], kinds[name], turn + rec["name"])
        obj.add_data({name: attr})
    return obj


class Runner:
    """One path: a workspace file, the object under observation and the replay loop."""

    def __init__(self, item):
        from geoh5py import Workspace, objects
        self.item = item
        self.arity = item["arity"]
        self.cls = getattr(objects, CLASSES[self.arity])
        self.kinds = item["kinds"]
        # how the call is made (not what it means) alternates over the paths: indices as list / ndarray
        self.as_array = bool(item.get("pid", 0) % 2)
        self.Workspace = Workspace
        self.path = os.path.join(scratch(), f"c07_{os.getpid()}_{item.get('pid', 0)}.geoh5")
        if os.path.exists(self.path):
            os.remove(self.path)
        self.ws = Workspace.create(self.path)
        self.nbuilt = 0
        self.obj = self._build(item["init"])
        self.viol = []
        self.stats = Counter()
        self.dead = False
        self.turn = 0

    def _build(self, st):
        self.nbuilt += 1
        return build(self.ws, self.cls, self.arity, st, self.kinds, self.nbuilt, self.item.get("pid", 0) + self.nbuilt)

    def close(self):
        try:
            self.ws.close()
        finally:
            if os.path.exists(self.path):
                os.remove(self.path)

    def _child(self, name):
        for c in self.obj.children:
            if getattr(c, "name", None) == name:
                return c
        raise MachineryError(f"harness: no child {name}")

    def _index(self, ix):
        return np.array(ix, dtype=int) if self.as_array else [int(i) for i in ix]

    def apply(self, lab, last=False):
        """-> (outcome, observation, source_observation or None). Exceptions of geoh5py are outcomes."""
        act = lab["act"]
        source = None
        dup = None
        self.turn += 1  # which source dtype the arrays of this call get
        turn = self.item.get("pid", 0) + self.turn
        try:
            if act == "AddData":
                name = f"d{lab['name']}"
                attr = {"association": lab["assoc"], "type": self.kinds[name]}
                if lab["k"] >= 0:
                    attr["values"] = concrete(lab["vals"], self.kinds[name], turn)
                self.obj.add_data({name: attr})
            elif act == "SetValues":
                name = f"d{lab['name']}"
                self._child(name).values = concrete(lab["vals"], self.kinds[name], turn)
            elif act == "RemoveVertices":
                self.obj.remove_vertices(self._index(lab["ix"]), clear_cache=bool(lab.get("clear", False)))
            elif act == "RemoveCells":
                self.obj.remove_cells(self._index(lab["ix"]), clear_cache=bool(lab.get("clear", False)))
            elif act == "MaskedCopy":
                source = self.obj
                new = self.obj.copy(mask=np.array(lab["mask"], dtype=bool))
                self.obj = new
            elif act == "CellMaskedCopy":
                source = self.obj
                new = self.obj.copy(cell_mask=np.array(lab["mask"], dtype=bool))
                self.obj = new
            elif act == "DataMaskedCopy":
                # one child copied with a mask onto a twin of the object (same geometry, no children);
                # the twin becomes the object under observation
                child = self._child(f"d{lab['name']}")
                twin = self.obj.copy(copy_children=False)
                child.copy(parent=twin, mask=np.array(lab["mask"], dtype=bool))
                source = self.obj
                self.obj = twin
            elif act == "GrowVertices":
                # assign a longer vertices array that keeps the existing rows as its prefix (k = -1: one row less)
                toks = lab["verts"] if lab["k"] > 0 else lab["verts"][:-1]
                self.obj.vertices = np.array([coord(t) for t in toks], dtype=float).reshape(-1, 3)
            elif act == "ReadParts":
                _ = self.obj.parts  # computes and caches Curve._parts; nothing may change
            elif act == "CopyClearCache":
                dup = self.obj.copy(clear_cache=True)  # the source stays the object under observation
            elif act == "Reopen":
                return self.reopen(last)
            else:
                raise MachineryError(f"harness: unknown action {act}")
            out = "ok"
        except MachineryError:
            raise
        except Exception as exc:  # pylint: disable=broad-except
            out = f"error:{type(exc).__name__}"
        obs = observe(self.obj, self.arity)
        if dup is not None:
            return out, obs, ("copy-differs", observe(dup, self.arity))
        src = ("source-modified", observe(source, self.arity)) if source is not None else None
        return out, obs, src

    def reopen(self, last=False):
        """close, read everything back through a fresh Workspace, then hand over a second fresh handle
        on which nothing is cached yet (the next action starts from the file)."""
        uid = self.obj.uid
        gone = {"verts": "missing", "cells": [], "data": {}, "zombies": []}
        try:
            self.ws.close()
            fresh = self.Workspace(self.path)
            try:
                got = fresh.get_entity(uid)[0]
                obs = observe(got, self.arity) if got is not None else gone
            finally:
                fresh.close()
            if last:  # nothing follows: no second handle needed
                self.dead = True
                return "ok", obs, None
            self.ws = self.Workspace(self.path)
            self.obj = self.ws.get_entity(uid)[0]
            if self.obj is None:
                self.dead = True
            return "ok", obs, None
        except Exception as exc:  # pylint: disable=broad-except
            self.dead = True
            return f"error:{type(exc).__name__}", gone, None

    def bad(self, signature, summary, upto):
        self.stats["viol:" + signature] += 1
        if sum(1 for v in self.viol if v["signature"] == signature) < KEEP_PER_SIGNATURE:
            case = dict(self.item)
            case["steps"] = self.item["steps"][: upto + 1]
            self.viol.append({"signature": signature, "summary": summary, "case": case})

    def run(self):
        cur = self.item["init"]
        first = observe(self.obj, self.arity)
        if first != ns_from_spec(cur, self.kinds):
            raise MachineryError(f"harness: cannot build initial state {cur}: observed {first}")
        for n, (lab, post) in enumerate(self.item["steps"]):
            pre_ns = ns_from_spec(cur, self.kinds)
            post_ns = ns_from_spec(post, self.kinds)
            out, obs, src = self.apply(lab, last=(n == len(self.item["steps"]) - 1))
            self.stats["steps"] += 1
            self.stats[f"act:{lab['act']}:{lab['out']}"] += 1
            kind = None
            if out == "ok":
                if lab["out"] != "ok":
                    kind = "accepted-invalid"
                else:
                    facet = difference(obs, post_ns, self.arity)
                    kind = None if facet is None else f"wrong-result:{facet}"
            else:
                facet = fail_inconsistency(pre_ns, obs, self.arity)
                if facet is not None:
                    kind = f"failed-op-inconsistent:{facet}"
                elif lab["out"] == "ok":
                    kind = "valid-op-fails"
            # the source of a masked copy must be untouched; the duplicate of copy(clear_cache=True) must be the
            # (unchanged) specified state
            if src is not None and kind is None and difference(src[1], pre_ns, self.arity) is not None:
                kind = src[0]
            if kind is not None:
                # the smallest set of named deviations whose prediction is exactly what geoh5py did
                hits = [sorted(d["name"]) for d in lab["devs"]
                        if (d["out"] == "ok") == (out == "ok") and ns_from_spec(d["st"], self.kinds) == obs]
                dev = "+".join(min(hits, key=lambda h: (len(h), h))) if hits else None
                text = (f"{CLASSES[self.arity]} step {n}: {lab['act']} name={lab['name']} assoc={lab['assoc']} k={lab['k']} "
                        f"ix={lab['ix']} clear={lab.get('clear')} mask={lab['mask']} on {_short(cur)}: specified {lab['out']} -> {_short(post)}; "
                        f"geoh5py {out} -> {_short(obs)}")
                refusers = [sorted(d["name"]) for d in lab["devs"] if d["out"] != "ok"]
                if kind == "valid-op-fails" and (dev is not None or refusers):
                    # a call that geoh5py as built is known to refuse (TLC printed a deviation that raises
                    # here) and everything is still consistent: the property does not oblige it to succeed
                    self.stats["tolerated:" + (dev or "+".join(min(refusers, key=lambda h: (len(h), h))))] += 1
                elif dev is not None:
                    self.bad(f"{dev}/{kind.split(chr(58))[0]}", text, n)
                else:
                    self.bad(f"{lab['act']}/{kind}", text, n)
            if self.dead:
                break  # the file cannot be read back at all (already reported above)
            if obs != post_ns:
                # as-built difference already judged above (or an allowed non-atomic failure / left-over
                # child without values): continue from a fresh object that is in the specified state
                self.stats["resync"] += 1
                if obs["zombies"] and not post_ns["zombies"]:
                    self.stats["leftover-valueless-child"] += 1
                self.obj = self._build(post)
            cur = post
        return self.viol, dict(self.stats)


def _short(x, n=260):
    s = json.dumps(x, sort_keys=True, default=str)
    s = s.replace('"', "")
    return s if len(s) <= n else s[:n] + "..."


_SILENCED = False


def _replay_path(item):
    global _SILENCED  # pylint: disable=global-statement
    if not _SILENCED and mp.current_process().name != "MainProcess":
        # Workspace.close() shells out to h5repack (not installed): keep its complaints off the report
        devnull = os.open(os.devnull, os.O_WRONLY)
        os.dup2(devnull, 2)
        _SILENCED = True
    r = Runner(item)
    try:
        return r.run()
    finally:
        r.close()


_ITEMS = []  # set before the pool forks: workers get an index, not a pickled path


def _replay_index(i):
    return _replay_path(_ITEMS[i])


# ------------------------------------------------------------------ spec -> paths
def _tlc_export(cfg):
    return tlc.run_tlc(SPEC_DIR, MODULE, cfg, workers=1, heap="4g", timeout=3000)


def _tlc_negative(cfg):
    return tlc.run_tlc(SPEC_DIR, MODULE, cfg, workers=1, heap="2g", keep_lines=False, timeout=1800)


def _paths(cfg, arity, limit, seed, max_len=12, res=None):
    if res is None:
        res = _tlc_export(cfg)
    if not res.ok:
        raise MachineryError(f"TLC reports {res.violated} on {MODULE}/{cfg}: the specification violates its own "
                             f"invariants\n{res.raw_tail[-1500:]}")
    g = tlc.build_graph(res.lines)
    init = graphmod.split_init(res.lines)
    if not g.edges or not init:
        raise MachineryError(f"{cfg}: empty state graph")
    # TLC chooses its fingerprint polynomial at random for every run: re-key the graph by the content of the
    # states and order the edges by content, so that the cover depends on (spec, cfg, seed) only
    name = {k: json.dumps(v, sort_keys=True) for k, v in g.states.items()}
    if len(set(name.values())) != len(name):
        raise MachineryError(f"{cfg}: two exported states have the same content")
    g.states = {name[k]: v for k, v in g.states.items()}
    g.edges = sorted(((name[s], name[d], lab) for s, d, lab in g.edges),
                     key=lambda e: (e[0], json.dumps(e[2], sort_keys=True)))
    init = sorted(name[k] for k in init)
    rng = random.Random(seed)
    paths, ncov, unreachable = tour_cover(g.edges, init, max_len=max_len, rng=rng)
    if unreachable:
        raise MachineryError(f"{cfg}: {len(unreachable)} transitions not reachable from the initial states")
    reopen = {}
    for i, (s, _, lab) in enumerate(g.edges):
        if lab["act"] == "Reopen":
            reopen[s] = i
    full = True
    if limit is not None and len(paths) > limit:
        paths = [paths[i] for i in sorted(rng.sample(range(len(paths)), limit))]
        full = False
    items = []
    for pid, p in enumerate(paths):
        end = g.edges[p[-1]]
        if end[2]["act"] != "Reopen" and end[1] in reopen:
            p = p + [reopen[end[1]]]  # finish every path by reading the file back
        kinds = {f"d{k}": KINDS[(pid + k) % len(KINDS)] for k in range(1, 10)}
        items.append({"cfg": cfg, "arity": arity, "pid": pid, "kinds": kinds,
                      "init": g.states[g.edges[p[0]][0]],
                      "steps": [[g.edges[i][2], g.states[g.edges[i][1]]] for i in p]})
    covered = len({i for p in paths for i in p}) if not full else ncov
    return res, g, items, covered, full


def run(tier, seed):
    states = trans = 0
    viol = []
    stats = Counter()
    per_cfg = {}
    samples = []
    exhaustive = True
    n_paths = 0
    predicted = Counter()
    # all TLC runs (exports and negative controls) side by side: they are single-worker java processes
    with ThreadPoolExecutor(max_workers=max(1, min(6, int(os.environ.get("VERIF_PROCS", "16")) // 2))) as ex:
        exports = {cfg: ex.submit(_tlc_export, cfg) for cfg, _, _ in CFG[tier]}
        negatives = {cfg: ex.submit(_tlc_negative, cfg) for cfg, _ in NEGATIVE[tier]}
        exports = {k: f.result() for k, f in exports.items()}
        negatives = {k: f.result() for k, f in negatives.items()}
    for cfg, arity, limit in CFG[tier]:
        res, g, items, covered, full = _paths(cfg, arity, limit, seed, MAX_PATH_LEN[tier], exports.pop(cfg))
        states += res.distinct
        trans += res.generated
        exhaustive = exhaustive and full
        for _, _, lab in g.edges:
            for d in lab["devs"]:
                predicted["+".join(sorted(d["name"]))] += 1
        t0 = time.time()
        global _ITEMS  # pylint: disable=global-statement
        _ITEMS = items
        out = pmap(_replay_index, range(len(items)))
        wall = time.time() - t0
        for v, st in out:
            stats.update(st)
            for x in v:
                if sum(1 for y in viol if y["signature"] == x["signature"]) < 25:
                    viol.append(x)
        n_paths += len(items)
        per_cfg[cfg] = {"tlc_states": res.distinct, "tlc_transitions": res.generated, "tlc_wall_s": round(res.wall_s, 1),
                        "graph_edges": len(g.edges), "edges_replayed": covered, "paths": len(items),
                        "replay_wall_s": round(wall, 1)}
        mid = items[len(items) // 2]
        samples.append({"cfg": cfg, "class": CLASSES[arity], "init": mid["init"],
                        "steps": [{k: v for k, v in s[0].items() if k != "devs"} for s in mid["steps"]]})
    neg = []
    for cfg, inv in NEGATIVE[tier]:
        r = negatives[cfg]
        if inv not in r.violated:
            raise MachineryError(f"negative control {cfg}: expected {inv} to be violated, got {r.violated}")
        neg.append(f"{cfg}: {inv} violated")
    # vacuity: every operation in both outcomes, every deviation predicted somewhere
    needed = [f"act:{a}:{o}" for a in ("AddData", "SetValues", "RemoveVertices", "RemoveCells", "MaskedCopy")
              for o in ("ok", "refused")] + ["act:Reopen:ok", "act:CellMaskedCopy:ok", "act:CopyClearCache:ok",
                                               "act:ReadParts:ok", "act:DataMaskedCopy:ok",
                                               "act:DataMaskedCopy:refused", "act:GrowVertices:ok", "act:GrowVertices:refused"]
    missing = [k for k in needed if not stats.get(k)]
    if missing:
        raise MachineryError(f"never exercised: {missing}")
    if any(not predicted.get(d) for d in DEVIATIONS):
        raise MachineryError(f"as-built predictions missing from the export: {dict(predicted)}")
    if stats["steps"] < 1000:
        raise MachineryError("too few steps replayed")
    cov = {
        "states": states, "transitions": trans, "traces_validated_against_impl": n_paths,
        "steps_replayed": stats["steps"], "exhaustive": exhaustive, "samples": samples, "per_config": per_cfg,
        "operations": {k[4:]: v for k, v in sorted(stats.items()) if k.startswith("act:")},
        "asbuilt_predictions_in_graph": dict(predicted),
        "tolerated_asbuilt_refusals_consistent_state": {k[10:]: v for k, v in stats.items() if k.startswith("tolerated:")},
        "leftover_valueless_child_after_refused_add": stats.get("leftover-valueless-child", 0),
        "resynchronisations": stats.get("resync", 0),
        "violations_by_signature": {k[5:]: v for k, v in sorted(stats.items()) if k.startswith("viol:")},
        "negative_controls": neg,
        "rule": "TLC checks LengthsAgree, CellsReferenceVertices, CellsJoinSameCoords, VertexValuesFollow, "
                "CellValuesFollow, OnlySurvivors on the specification and exports its state graph; a path cover "
                "(every transition at least once, every path finished by a re-open) is replayed on Points, Curve "
                "and Surface objects in .geoh5 files and after every action outcome, vertices, cells and all "
                "children values (live; from a freshly opened workspace for Reopen) are compared with TLC's state",
    }
    return {
        "level": "model_checking",
        "violations": viol,
        "coverage": cov,
        "assumptions": [
            "bounds: see spec/align/*.cfg (<=3 (quick) / <=4 (thorough) vertices, <=2/3 cells, <=2 data names, "
            "index sequences of length <=2/3, TLC depth 3/4; replayed paths walk up to 10 operations)",
            "data kinds FLOAT, INTEGER, BOOLEAN rotate over the paths and the dtype of the arrays handed over rotates "
            "over float64/float32 and int32/uint8/int64/int16; TEXT data are not modelled",
            "copy(clear_cache=True) is offered on Points, Surface and on curves whose segments join consecutive "
            "vertices in increasing order",
            "a failing operation is required to leave a consistent, value-preserving state, not the pre-state",
            "non-negative indices only; copies stay in the same workspace; clear_cache=True only with single-index "
            "removals; indices are passed as list / ndarray alternately",
        ],
    }


def replay(doc):
    case = doc["case"]
    v, st = _replay_path(case)
    return {"violations": v, "coverage": {"replayed": 1, "steps": st.get("steps", 0)}}
