"""C05 - decided by spec/core/Geoh5Core.tla (TLC) + replay of the exported state graph (harness/core_replay.py)."""
from ..core_check import make

run, replay = make("C05", ["C05_quick.cfg", "C05vp_quick.cfg", "C05blk_quick.cfg", "C05na_quick.cfg", "C05gc_quick.cfg"], ["C05_thorough.cfg", ("Sim_remove.cfg", {"num": 150, "depth": 30})],
                   "removals through the workspace and through the parent, of data in 0-2 property groups, objects with children and nested groups; after every step file links, flat containers, property-group blocks, children lists and registries are compared with the specification", neg=('AsBuilt_orphans.cfg','NoOrphansWhenClosed'),
                   concat=[("DrillholeConcatExportFlags.cfg", 21, None)])
