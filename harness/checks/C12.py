"""C12 - decided by spec/core/Geoh5Core.tla (TLC) + replay of the exported state graph (harness/core_replay.py)."""
from ..core_check import make

run, replay = make("C12", ["C12_quick.cfg", "C12grp_quick.cfg", "C12x_quick.cfg", "C12xd_quick.cfg", "C12ro_quick.cfg", "C12vp_quick.cfg"], ["C12_thorough.cfg", "C12x_thorough.cfg", ("Sim_all.cfg", {"num": 150, "depth": 30})],
                   "copies of data, objects and groups (deep and shallow, to any attached parent) followed by edits of copy and source and re-opens; after every step source and copy are compared with the specification (isomorphic subtree, remapped property groups, unchanged source)", neg=None, max_paths_quick=6000,
                   concat=[("DrillholeConcatExportQuick.cfg", 21, 300)])
