"""C19 - the reader tolerates missing optional content.  Spec: spec/reader/ReaderFaults.tla

TLC enumerates file x item (build histories, then one DeleteItem, then Open), checks the item model
(every item classified, Describes / Bystanders sane) and PropertyHolds on the reader model, and
exports one FILE line per file (with the full item list) and one CASE line per (file, item) with
the classification and the bystander set.  Each file is built with the public geoh5py API, its
concrete items are discovered with raw h5py and matched against the spec's list both ways, every
item is deleted in a copy, the copy is opened with Workspace(path, mode="r") and the projection of
every bystander is compared with the projection of the intact file.
"""
from __future__ import annotations

import json
import os
import threading
import time
import zlib
from collections import Counter

from .. import funcheck, pool
from .. import reader_files as rf
from ..tlc import MachineryError, run_tlc

# (cfg, maximum number of files replayed or None = all)
CFG = {
    "quick": [("ReaderQuickTree.cfg", None), ("ReaderQuickContent.cfg", None), ("ReaderQuickClasses.cfg", None),
              ("ReaderQuickPG.cfg", None), ("ReaderQuickDrill.cfg", None)],
    "thorough": [("ReaderQuickTree.cfg", None), ("ReaderQuickContent.cfg", None), ("ReaderQuickClasses.cfg", None),
                 ("ReaderQuickPG.cfg", None), ("ReaderQuickDrill.cfg", None), ("ReaderPG2.cfg", None),
                 ("ReaderDrill.cfg", None), ("ReaderTree3.cfg", None),
                 ("ReaderClasses.cfg", 600), ("ReaderContent.cfg", 500)],
}
FINDING_ROOT = "root-rebuild-reparents-nested-group"
KINDS = ["pattr", "flat", "rootlink", "entry", "eattr", "typelink", "childcont", "childlink", "dataset", "cdata",
         "pgcont", "pgblock", "pgattr", "tentry", "tattr", "tmap", "tmapattr"]


def _enumerate(cfg):
    # (one PrintT = one println: lines stay whole with several workers, and their order is irrelevant here)
    res = run_tlc("reader", "ReaderFaults", cfg, workers=2, heap="2g", timeout=3000)
    if not res.ok:
        raise MachineryError(f"TLC reports {res.violated} on ReaderFaults/{cfg}: the specification violates its own "
                             f"invariants\n{res.raw_tail[-1500:]}")
    files, cases = {}, {}
    for tag, nums, obj in res.lines:
        key = (nums[0], nums[1])
        if tag == "FILE":
            if key in files and files[key] != obj:
                raise MachineryError(f"fingerprint collision between two files of {cfg}")
            files[key] = obj
        elif tag == "CASE":
            cases.setdefault(key, []).append(obj)
    if not files or set(cases) - set(files):
        raise MachineryError(f"{cfg}: export inconsistent ({len(files)} files, {len(cases)} case groups)")
    units = []
    for key, fobj in files.items():
        items = sorted([i["k"], i["n"], i["a"]] for i in fobj["items"])
        got = sorted([c["item"]["k"], c["item"]["n"], c["item"]["a"]] for c in cases.get(key, []))
        if got != items:
            raise MachineryError(f"{cfg}: TLC did not export one CASE per item of a file ({len(got)} vs {len(items)})")
        units.append({"file": fobj["file"], "items": items, "cases": cases[key]})
    units.sort(key=lambda u: json.dumps(u["file"], sort_keys=True))
    return res, units


def _file_seed(fspec, seed):
    return zlib.crc32(json.dumps(fspec, sort_keys=True).encode()) ^ (seed * 2654435761 % 2 ** 32)


def _check_intact(fspec, maps, base):
    """The intact file read back by geoh5py must be the tree the spec describes (else the harness built
    something else than the state TLC explored)."""
    uid = maps["nodes"]
    for idx, node in enumerate(fspec["nodes"], 1):
        got = base.get(uid[idx])
        want_parent = "ROOT" if node["parent"] == 0 else uid[node["parent"]]
        if got is None or got.get("raises") or got["parent"] != want_parent or got["type"]["uid"] != maps["types"][node["ty"]]:
            raise MachineryError(f"intact file: node {idx} {node} read back as {got}")
    for pidx, pgrp in enumerate(fspec["pgs"], 1):
        got = base.get(maps["pgs"][pidx])
        want_name = f"pg{pidx}" if pgrp["named"] else "property_group"
        if (got is None or got.get("raises") or got["properties"] != sorted(uid[m] for m in pgrp["members"])
                or got["parent"] != uid[pgrp["obj"]] or got["name"] != want_name):
            raise MachineryError(f"intact file: property group {pidx} {pgrp} read back as {got}")
    if len(base) != len(fspec["nodes"]) + 2 + len(fspec["pgs"]):
        raise MachineryError(f"intact file: {len(base)} entities read, "
                             f"{len(fspec['nodes']) + 2 + len(fspec['pgs'])} expected")


def _judge(case, status, view, base, ent_uid):
    """-> (violation or None, observed outcome in the vocabulary of the spec)."""
    item = case["item"]
    label = f"{item['k']}:{item['a']}" if item["a"] else item["k"]
    if status == "error":
        obs = {"err": True, "absent": [], "altered": [], "extra": 0}
        if case["class"] == "optional":
            return (f"optional-item-open-fails:{label}",
                    f"removing the optional item {item} makes Workspace(path, mode='r') fail with {view}"), obs
        return None, obs
    stat = {}
    for ent, uid in ent_uid.items():
        stat[ent] = "absent" if uid not in view else ("same" if view[uid] == base[uid] else "altered")
    obs = {"err": False, "absent": sorted(e for e, s in stat.items() if s == "absent"),
           "altered": sorted(e for e, s in stat.items() if s == "altered"),
           "extra": len(set(view) - set(base))}
    bad = [b for b in case["bystanders"] if stat[b] != "same"]
    if not bad:
        return None, obs

    def only_parent_to_root(ent):
        old, new = base[ent_uid[ent]], view.get(ent_uid[ent])
        return (new is not None and not new.get("raises") and new["parent"] == "ROOT"
                and {k for k in old if old[k] != new.get(k)} == {"parent"})

    detail = {b: ("absent" if stat[b] == "absent" else
                  sorted(k for k in base[ent_uid[b]] if base[ent_uid[b]][k] != view[ent_uid[b]].get(k)))
              for b in bad}
    if (item["k"] == "rootlink" and case["reparented"] and sorted(bad) == sorted(case["reparented"])
            and all(only_parent_to_root(b) for b in bad)):
        # exactly the answer of the named deviation RebuildRootFlatOrder of ReaderFaults.tla
        return (FINDING_ROOT, f"Root link removed: nested group(s) {bad} come back as children of the rebuilt root "
                              f"(uid order of /Groups), their former parents lose them"), obs
    word = "dropped" if any(stat[b] == "absent" for b in bad) else "altered"
    return (f"bystander-{word}:{label}",
            f"removing {case['class']} item {item} (describes {case['describes']}) {word} bystander(s) {detail}"), obs


def _agrees(obs, pred):
    """Observed outcome against the outcome of the reader model (informative, not the verdict)."""
    if obs["err"] or pred["err"]:
        return obs["err"] == pred["err"]
    return (obs["absent"] == pred["absent"] and obs["extra"] == pred["extra"]
            and set(pred["altered"]) <= set(obs["altered"]) <= set(pred["altered"]) | set(pred["maybe"]))


def _replay_file(unit):
    fspec, seed = unit["file"], unit["seed"]
    scratch = pool.scratch()
    path = os.path.join(scratch, "intact.geoh5")
    copy = os.path.join(scratch, "damaged.geoh5")
    out = {"violations": [], "cases": 0, "hist": Counter(), "kinds": Counter(), "agree": 0, "disagree": [],
           "classes": Counter(), "reparent_cases": 0}
    maps = rf.build(fspec, path, seed)
    table = rf.match_items(path, maps, unit["items"]) if unit.get("match", True) else None
    ent_uid = {rf.PROJ: "PROJECT"}
    ent_uid.update({int(n): u for n, u in maps["nodes"].items()})
    ent_uid.update({rf.PG_BASE + int(p): u for p, u in maps["pgs"].items()})
    status, base = rf.open_and_project(path)
    status2, again = rf.open_and_project(path)
    if status != "open" or status2 != "open" or base != again:
        raise MachineryError(f"intact file does not open twice with the same projection: {status} {status2}")
    _check_intact(fspec, maps, base)
    root_uid = maps["nodes"][rf.ROOT]
    with rf.seeded_uuids(seed + 1):
        for case in unit["cases"]:
            item = case["item"]
            key = (item["k"], item["n"], item["a"])
            if table is not None:
                conc = table[key]
            else:
                conc = next(c for c in rf.discover(path) if tuple(rf.spec_item(c, maps) or ()) == key)
            rf.copy_file(path, copy)
            rf.delete_item(copy, conc)
            status, view = rf.open_and_project(copy, root_uid)
            verdict, obs = _judge(case, status, view, base, ent_uid)
            out["cases"] += 1
            out["kinds"][item["k"]] += 1
            out["classes"][case["class"]] += 1
            out["hist"]["error" if obs["err"] else
                        ("identical" if not obs["absent"] and not obs["altered"] and not obs["extra"] else "differing")] += 1
            if item["k"] == "rootlink" and case["reparented"]:
                out["reparent_cases"] += 1
            if _agrees(obs, case["pred"]):
                out["agree"] += 1
            elif len(out["disagree"]) < int(os.environ.get("C19_KEEP_DISAGREE", "3")):
                out["disagree"].append({"item": item, "predicted": case["pred"], "observed": obs})
            if verdict is not None:
                out["violations"].append({
                    "signature": verdict[0], "summary": verdict[1],
                    "case": {"file": fspec, "seed": seed, "case": case, "concrete": list(conc)}})
    for tmp in (path, copy):
        if os.path.exists(tmp):
            os.remove(tmp)
    return out


def run(tier, seed):
    t_tlc = time.time()
    results = {}

    def work(cfg):
        try:
            results[cfg] = _enumerate(cfg)
        except BaseException as exc:  # pylint: disable=broad-except
            results[cfg] = exc

    threads = [threading.Thread(target=work, args=(cfg,)) for cfg, _ in CFG[tier]]
    for thr in threads:
        thr.start()
    for thr in threads:
        thr.join()
    for cfg, _ in CFG[tier]:
        if isinstance(results[cfg], BaseException):
            raise results[cfg]
    # negative control: the reader as built (named deviation) must violate the property in the model
    neg = run_tlc("reader", "ReaderFaults", "ReaderAsBuilt.cfg", workers=2, heap="2g", timeout=1800, keep_lines=False)
    if "PropertyHolds" not in neg.violated:
        raise MachineryError(f"negative control ReaderAsBuilt.cfg: expected PropertyHolds violated, got {neg.violated}")
    t_tlc = time.time() - t_tlc

    states = trans = 0
    units, per_cfg, seen = [], {}, set()
    exhaustive = True
    for cfg, limit in CFG[tier]:
        res, cfg_units = results[cfg]
        states += res.distinct
        trans += res.generated
        fresh = []
        for unit in cfg_units:
            key = json.dumps(unit["file"], sort_keys=True)
            if key not in seen:           # the same file may be reachable in two configurations
                seen.add(key)
                fresh.append(unit)
        chosen, full = funcheck.sample(fresh, limit, seed)
        exhaustive = exhaustive and full
        for unit in chosen:
            unit["seed"] = _file_seed(unit["file"], seed)
        units += chosen
        per_cfg[cfg] = {"tlc_states": res.distinct, "tlc_wall_s": round(res.wall_s, 1), "files": len(cfg_units),
                        "files_replayed": len(chosen), "cases_replayed": sum(len(u["cases"]) for u in chosen)}
    units.sort(key=lambda u: -len(u["cases"]))
    t_rep = time.time()
    outs = pool.pmap(_replay_file, units, chunksize=1)
    t_rep = time.time() - t_rep

    viol = [v for o in outs for v in o["violations"]]
    hist, kinds, classes = Counter(), Counter(), Counter()
    cases = agree = reparent = 0
    disagree = []
    for o in outs:
        hist.update(o["hist"])
        kinds.update(o["kinds"])
        classes.update(o["classes"])
        cases += o["cases"]
        agree += o["agree"]
        reparent += o["reparent_cases"]
        disagree += o["disagree"]
    missing = [k for k in KINDS if not kinds[k]]
    if missing or not classes["optional"] or not classes["mandatory"] or not reparent or cases < 1000:
        raise MachineryError(f"vacuous sweep: item kinds never exercised {missing}, classes {dict(classes)}, "
                             f"root-rebuild cases {reparent}, cases {cases}")
    biggest = units[0]
    sample_case = next(c for c in biggest["cases"] if c["item"]["k"] == "eattr")
    return {
        "level": "model_checking",
        "violations": viol,
        "coverage": {
            "states": states, "transitions": trans, "traces_validated_against_impl": cases,
            "files_built": len(units), "exhaustive": exhaustive,
            "outcomes": dict(hist), "item_kinds": dict(kinds), "item_classes": dict(classes),
            "root_link_cases_with_predicted_reparenting": reparent,
            "reader_model_agreement": f"{agree}/{cases}",
            "reader_model_disagreements": disagree[:5],
            "per_config": per_cfg, "tlc_wall_s": round(t_tlc, 1), "replay_wall_s": round(t_rep, 1),
            "negative_control": f"Deviations={{RebuildRootFlatOrder}} violates PropertyHolds ({neg.violated})",
            "samples": [{"file": biggest["file"], "case": sample_case}],
            "rule": "model-driven single-fault enumeration: TLC enumerates every file of the build histories within "
                    "the constants of each cfg x every item (attribute, link, dataset) of that file, checks "
                    "EveryItemClassified, DescribesSane, NamedByProperty and PropertyHolds on the reader model, and "
                    "exports per (file, item) the classification and the bystander set; the harness builds each file "
                    "with the geoh5py API, matches the items of the real HDF5 file with the spec's items both ways, "
                    "deletes the item with raw h5py, opens with Workspace(path, mode='r') and requires: optional => "
                    "opens; opened => every bystander has the projection it has in the intact file",
        },
        "assumptions": [
            "bounds: see spec/reader/*.cfg (<= 3 groups, <= 2 objects, <= 2-3 data, <= 1-2 property groups per file; "
            "classes ContainerGroup, Points, Curve, Surface, Grid2D; float / integer / referenced / text data, "
            "colour map, value map, shared data type)",
            "single faults only; drillhole (concatenated) storage, file-name data and metadata datasets are not built",
            "content = what the public getters return (class, name, parent, flags, geometry and values digests, "
            "property groups, type attributes, project header); entities are identified by uid, the root by role",
            "classification optional / mandatory is the one written in ReaderFaults.tla from the format documents; "
            "items the documents do not declare optional are judged by the weaker (mandatory) clause",
            "the reader-model agreement figure is informative; the verdict only uses class + bystanders from TLC",
        ],
    }


def replay(doc):
    case = doc["case"]
    unit = {"file": case["file"], "items": [], "cases": [case["case"]], "seed": case["seed"], "match": False}
    out = pool.pmap(_replay_file, [unit], procs=1)[0]
    return {"violations": out["violations"], "coverage": {"replayed": out["cases"]}}
