"""C02 - decided by spec/core/Geoh5Core.tla (TLC) + replay of the exported state graph (harness/core_replay.py)."""
from ..core_check import make

run, replay = make("C02", ["C02_quick.cfg", "C02mv_quick.cfg", "C05blk_quick.cfg"], ["C02_thorough.cfg", "C12x_thorough.cfg", ("Sim_remove.cfg", {"num": 150, "depth": 30})],
                   "every closed file of every replayed behaviour is checked against the geoh5 layout rules with raw h5py (containers, ID attributes, Type links by object address, hard links to flat nodes, single parent, reachability, property-group membership)", neg=('AsBuilt_orphans.cfg','NoOrphansWhenClosed'))
