"""C08 - values survive storage unchanged; gaps use the format's no-data codes.

Spec: spec/values/ValueCodec.tla.  TLC enumerates every write request of the class abstraction
(family, data kind, operation, source dtype/form, <= 2 element classes, length relation) together
with the outcome the specification defines for it (verdict, stored codes, live value, value after
re-open) and checks the C08 invariants on that table.  Every exported CASE is instantiated with
concrete members of its classes (harness/values_reps.py: boundaries always, seeded random members
in addition) and replayed through the public API on a Points object of a real file; the verdict,
the live value, the raw HDF5 datasets (read with plain h5py) and the value read back by a fresh
Workspace are compared with what TLC printed.
"""
from __future__ import annotations

import contextlib
import json
import math
import os
import uuid as uuidlib
import zlib
from collections import Counter

import numpy as np

from .. import funcheck
from .. import values_reps as R
from ..pool import pmap, scratch
from ..tlc import MachineryError

CFG = {"quick": "ValueCodecQuick.cfg", "thorough": "ValueCodecThorough.cfg"}
TIER = {"quick": {"extra": 2, "picks": 1}, "thorough": {"extra": 12, "picks": 2}}
BATCH = 60
HOST_N = {"Points.VERTEX": 3, "Curve.VERTEX": 4, "Curve.CELL": 3, "Surface.CELL": 2, "Grid2D.CELL": 4,
          "BlockModel.CELL": 2, "Octree.CELL": 2}  # vertices / cells of the host objects built by _make_host
NEG = [("ValueCodecDev_IntCastWraps.cfg", "UnrepresentableRejected"),
       ("ValueCodecDev_FloatCastUnchecked.cfg", "UnrepresentableRejected"),
       ("ValueCodecDev_BytesNotValidated.cfg", "UnrepresentableRejected"),
       ("ValueCodecDev_MetadataUuidLikeText.cfg", "RoundTrip"),
       ("ValueCodecDev_MapKeyWrapsU32.cfg", "UnrepresentableRejected"),
       ("ValueCodecDev_TextLengthUnchecked.cfg", "TooLongRejected")]
# signature emitted when (and only when) the implementation answers exactly what the named deviation predicts
DEV_SIG = {"IntCastWraps": "integer-cast-wraps-out-of-range-int",
           "FloatCastUnchecked": "integer-cast-out-of-range-float",
           "BytesNotValidated": "text-nonutf8-bytes-unreadable",
           "MetadataUuidLikeText": "metadata-uuidlike-text-becomes-uuid",
           "MapKeyWrapsU32": "valuemap-key-wraps-u32",
           "TextLengthUnchecked": "text-longer-than-geometry-accepted"}
REF_MAP = {1: "A", 2: "B"}
BASE_MAP = {6: "base"}  # what a value map holds before an operation on an existing map (6 is in no key class)
KIND_TYPE = {"Float": "FLOAT", "Integer": "INTEGER", "Boolean": "BOOLEAN", "Referenced": "REFERENCED", "Text": "TEXT"}
KIND_CLASS = {"Float": "FloatData", "Integer": "IntegerData", "Boolean": "BooleanData",
              "Referenced": "ReferencedData", "Text": "TextData"}
MAX_PER_SIGNATURE = 3


# ----------------------------------------------------------------------------- instantiation
def _members(c, which, e, extra, seed):
    fam, cls = c["fam"], c[which][e]
    if fam == "Numeric":
        return R.num_members(c["src"], cls, extra, seed)
    if fam == "Concat":
        return R.num_members("float32", cls, extra, seed)  # float32 numbers, whatever array dtype carries them
    if fam == "Text":
        if c["src"] == "int64":
            return (3, 4, 100)
        mem = R.text_members(cls, extra, seed)
        if c["src"] in ("bytes", "S"):
            mem = tuple(x if isinstance(x, bytes) else x.encode("utf-8") for x in mem)
        return mem
    if fam == "Json":
        return R.text_members(cls, extra, seed) if c["kind"] == "Comments" else R.meta_members(cls, extra, seed)
    if fam == "Blob":
        return R.blob_members(cls, extra, seed) if which == "elems" else tuple(R.NAME_MEMBERS[cls])
    if fam == "Map":
        return tuple(R.key_members(cls, extra, seed)) if which == "elems" else R.text_members(cls, extra, seed)
    raise MachineryError(f"unknown family {fam}")


def _is_single(c):
    return len(c["elems"]) == 1 and c["lenrel"] in ("equal", "scalar")


def n_picks(c, extra, seed, picks):
    """Singles use every boundary and every random member; other cases rotate through the members."""
    if not _is_single(c):
        return picks
    n = max(len(_members(c, "elems", e, extra, seed)) for e in range(len(c["elems"])))
    if c["aux"] and not _is_host(c):
        n = max(n, max(len(_members(c, "aux", e, extra, seed)) for e in range(len(c["aux"]))))
    if c["fam"] == "Map" and c["op"] not in ("add", "assign"):
        n = min(n, 4 * picks)  # the operation shapes share the codec of add / assign, which get every member
    if c["fam"] == "Concat":
        n = min(n, 3 * picks)
    return n


def instantiate(item):
    """Concrete members for the element (and aux) classes of one case; deterministic in (case, pick, seed)."""
    c, pick, seed, extra = item["c"], item["pick"], item["seed"], item["extra"]
    rot = 0 if _is_single(c) else zlib.crc32(json.dumps(c, sort_keys=True).encode())
    out = {}
    for which in ("elems", "aux"):
        if which == "aux" and _is_host(c):
            out["aux"] = list(c["aux"])  # host and session, not value classes
            continue
        vals = []
        for e in range(len(c[which])):
            mem = _members(c, which, e, extra, seed)
            idx = (rot + pick * 7 + e * 3) % len(mem) if rot else pick % len(mem)
            if c["fam"] == "Map" and which == "elems":
                # the keys of one map are pairwise distinct python keys
                for _ in range(len(mem)):
                    if all(not _same_key(mem[idx], v) for v in vals):
                        break
                    idx = (idx + 1) % len(mem)
            vals.append(mem[idx])
        out[which] = vals
    return out


def _same_key(a, b):
    try:
        return hash(a) == hash(b) and a == b
    except Exception:  # pylint: disable=broad-except
        return False


def _is_host(c):
    return c["fam"] == "Numeric" and bool(c["aux"])


def expand_host(case):
    """A host case carries two classes; the array handed to the API repeats them up to the size of the host's
    geometry (+-1 for the length relation).  Outcomes are per element, so o / ab are repeated the same way."""
    c = case["c"]
    if not _is_host(c):
        return case
    n_el = len(c["elems"])
    length = HOST_N[c["aux"][0]] + {"shorter": -1, "equal": 0, "longer": 1}[c["lenrel"]]

    def tile(outc):
        out = dict(outc)
        for key in ("enc", "devs"):
            out[key] = [outc[key][i % n_el] for i in range(length)]
        for key in ("stored", "live", "back"):
            if outc[key]:
                out[key] = [outc[key][i % n_el] for i in range(length)] + list(outc[key][n_el:])
        return out

    return {"c": dict(c, elems=[c["elems"][i % n_el] for i in range(length)]), "o": tile(case["o"]), "ab": tile(case["ab"])}


def _geometry(c, length):
    if c["fam"] == "Map":
        return length
    if c["lenrel"] == "shorter":
        return length + 1
    if c["lenrel"] == "longer":
        return length - 1
    if c["lenrel"] == "scalar":
        return max(2, length)
    return length


# ----------------------------------------------------------------------------- comparisons
def _item(a):
    return a.item() if isinstance(a, np.generic) else a


def eq_num(got, want):
    got, want = _item(got), _item(want)
    if isinstance(got, (bytes, str)) or isinstance(want, (bytes, str)):
        return False
    if isinstance(want, float) and math.isnan(want):
        return isinstance(got, float) and math.isnan(got)
    if isinstance(got, float) and math.isnan(got):
        return False
    return got == want  # python compares int/float/bool exactly


def is_fndv(got):
    got = _item(got)
    if not isinstance(got, float) or math.isnan(got):
        return False
    return got == R.FLOAT_NDV or np.float32(got) == np.float32(R.FLOAT_NDV)


def canon_text(x):
    """bytes and str denote the same text when the bytes are its UTF-8 encoding."""
    x = _item(x)
    if isinstance(x, (bytes, bytearray)):
        try:
            return bytes(x).decode("utf-8")
        except UnicodeDecodeError:
            return bytes(x)
    return x


def eq_json(got, want):
    if isinstance(want, float) and math.isnan(want):
        return isinstance(got, float) and math.isnan(got)
    if isinstance(want, uuidlib.UUID) or isinstance(got, uuidlib.UUID):
        return type(got) is type(want) and got == want  # pylint: disable=unidiomatic-typecheck
    if isinstance(want, str) or isinstance(got, str):
        return isinstance(got, str) and isinstance(want, str) and got == want
    if isinstance(got, float) and math.isnan(got):
        return False
    return got == want


def _seq(x):
    """Array-like -> list; a scalar text counts as a one-element array (the reader unwraps length-1 arrays)."""
    if x is None:
        return None
    if isinstance(x, (str, bytes)):
        return [x]
    if isinstance(x, np.ndarray):
        return list(x.ravel())
    if isinstance(x, (list, tuple)):
        return list(x)
    return [x]


# ----------------------------------------------------------------------------- expectations from the spec outcome
def _concrete(c, inst, outc, where, i):
    """Concrete value the outcome `outc` (o or ab of the CASE line) prescribes at position i of live/stored/back."""
    name = outc[where][i]
    elems = c["elems"]
    val = R.num_value(inst["elems"][i]) if i < len(elems) and c["fam"] in ("Numeric", "Concat") else (
        inst["elems"][i] if i < len(elems) else None)
    if i < len(elems) and name == elems[i]:
        return ("val", val)
    if name == "FNDV":
        return ("fndv", None)
    if name in ("NaN",):
        return ("val", math.nan)
    if name in ("INDV", "IntNDV"):
        return ("val", R.INTEGER_NDV)
    if name in ("B0", "Zero"):
        return ("val", 0)
    if name in ("B1", "One"):
        return ("val", 1)
    code = outc["stored"][i] if i < len(outc["stored"]) else name
    if name in ("Wrap32",) or (name == "Altered" and code == "Wrap32"):
        return ("val", R.wrap32(val))
    if name in ("CCast",) or (name == "Altered" and code == "CCast"):
        return ("val", R.INTEGER_NDV)  # x86-64 "integer indefinite" of an out-of-range float -> int32 conversion
    if name in ("WrapU32",) or (name == "Altered" and code == "WrapU32"):
        return ("val", int(val) % 2 ** 32)
    if name == "RawBytes":
        return ("val", val)
    if name == "Unreadable":
        return ("unreadable", None)
    if name == "AsUuid":
        return ("val", uuidlib.UUID(val))
    raise MachineryError(f"no concrete value for {where}[{i}]={name} in {funcheck.short(c)}")


# ----------------------------------------------------------------------------- the write, per family
@contextlib.contextmanager
def _quiet():
    """close() shells out to h5repack (not installed); keep its complaint off the terminal."""
    saved = os.dup(2)
    devnull = os.open(os.devnull, os.O_WRONLY)
    try:
        os.dup2(devnull, 2)
        yield
    finally:
        os.dup2(saved, 2)
        os.close(devnull)
        os.close(saved)


def _good(kind, n):
    if kind == "Float":
        return np.linspace(0.25, 1.25, n)
    if kind == "Boolean":
        return np.arange(n) % 2 == 0
    if kind == "Text":
        return np.array([f"g{i}" for i in range(n)])
    return (np.arange(n) % 2 + 1).astype("int32")


def _text_arg(form, vals):
    if form in ("str", "bytes"):
        return vals[0]
    if form == "list":
        return list(vals)
    if form == "object":
        return np.array(list(vals) + [None], dtype=object)[:-1]
    if form == "int64":
        return np.array(vals, dtype="int64")
    arr = np.array(vals)
    if arr.dtype.kind not in "US" or [canon_text(a) for a in arr.tolist()] != [canon_text(v) for v in vals]:
        raise R.RepsError(f"array {arr!r} does not hold {vals!r}")
    return arr


def _write(ws, item, inst):
    """Perform the operation of one case inside the open workspace. Returns the observation dict."""
    from geoh5py.objects import Points
    c = item["c"]
    fam, kind, op = c["fam"], c["kind"], c["op"]
    obs = {"verdict": None}
    if fam == "Numeric":
        arg = R.build_array(c["src"], inst["elems"])
        length = len(inst["elems"])
    elif fam == "Text":
        arg = _text_arg(c["src"], inst["elems"])
        length = len(inst["elems"])
    elif fam == "Map":
        keys = inst["elems"]
        arg = dict(zip(keys, inst["aux"]))
        length = len(keys)
        if len(arg) != length:
            raise MachineryError(f"map keys collide: {keys!r}")
    else:
        arg, length = inst["elems"][0], 1
    nv = _geometry(c, length)
    rng = np.random.default_rng(item["pick"] + 17)
    pts = Points.create(ws, vertices=rng.random((nv, 3)), name="p")
    obs["obj"] = pts.uid
    data = None
    # preparation with ordinary values (not part of the verdict; a refusal here is reported on its own)
    try:
        if fam in ("Numeric", "Text") and op == "set":
            spec = {"values": _good(kind, nv), "type": KIND_TYPE[kind], "association": "VERTEX"}
            if kind == "Referenced":
                spec["value_map"] = dict(REF_MAP)
            data = pts.add_data({"d": spec})
        elif fam == "Map":
            ints = [int(k) if isinstance(k, (int, np.integer)) and 0 <= int(k) <= R.I32MAX else 0 for k in inst["elems"]]
            obs["refs"] = ints
            if op != "add":
                data = pts.add_data({"d": {"values": np.array(ints, dtype="int32"), "type": "REFERENCED",
                                           "association": "VERTEX", "value_map": dict(BASE_MAP)}})
        elif fam == "Json" and op == "append":
            pts.add_comment("earlier comment", "someone")
        elif fam == "Blob" and op == "set":
            data = pts.add_file(b"old content", name=inst["aux"][0])
    except Exception as exc:  # pylint: disable=broad-except
        obs.update(verdict="reject", prep=True, exc=f"{type(exc).__name__}: {str(exc)[:100]}")
        return obs
    try:
        if fam in ("Numeric", "Text"):
            if op == "set":
                data.values = arg
            else:
                assoc = "OBJECT" if c["lenrel"] == "scalar" else "VERTEX"
                spec = {"values": arg, "association": assoc}
                if op == "add":
                    spec["type"] = KIND_TYPE[kind]
                    if kind == "Referenced":
                        spec["value_map"] = dict(REF_MAP)
                data = pts.add_data({"d": spec})
            obs["live"] = data.values
            obs["class"] = type(data).__name__
            vmap = getattr(data.entity_type, "value_map", None)
            obs["live_map"] = None if vmap is None else dict(vmap.map)
        elif fam == "Map":
            if op == "add":
                data = pts.add_data({"d": {"values": np.array(obs["refs"], dtype="int32"), "type": "REFERENCED",
                                           "association": "VERTEX", "value_map": arg}})
            elif op == "assign":
                data.entity_type.value_map = arg
            elif op == "assign_equal":
                data.entity_type.value_map = arg
                data.entity_type.value_map = dict(data.entity_type.value_map.map)  # equal, but a new dict
            elif op == "equal_then_assign":
                data.entity_type.value_map = dict(data.entity_type.value_map.map)  # unchanged ...
                data.entity_type.value_map = arg  # ... then changed
            elif op == "edit_assign":
                for key, label in arg.items():
                    data.value_map[key] = label  # edits the held map in place (not written by design)
                data.entity_type.value_map = data.value_map  # commit: the object already held
            elif op == "editdict_assign":
                held = data.value_map.map  # the dict the getter returns
                for key, label in arg.items():
                    held[key] = label
                data.entity_type.value_map = held
            else:
                raise MachineryError(f"unknown map operation {op}")
            vmap = data.entity_type.value_map
            obs["live_map"] = None if vmap is None else dict(vmap.map)
        elif kind == "Comments":
            pts.add_comment(inst["elems"][0], inst["aux"][0])
            data = pts.comments
            last = data.values[-1]
            obs["live"] = (last["Text"], last["Author"])
        elif kind == "Metadata":
            pts.metadata = {"key": arg} if op == "top" else {"outer": {"key": arg, "other": 1}}
            meta = pts.metadata
            obs["live"] = meta["key"] if op == "top" else meta["outer"]["key"]
        elif fam == "Blob":
            if op == "set":
                data.values = arg
            else:
                data = pts.add_file(arg, name=inst["aux"][0])
            obs["live"] = (data.values, data.file_name)
        obs["verdict"] = "accept"
        obs["uid"] = None if data is None else data.uid
    except Exception as exc:  # pylint: disable=broad-except
        obs["verdict"] = "reject"
        obs["exc"] = f"{type(exc).__name__}: {str(exc)[:100]}"
    return obs


def _make_host(ws, name):
    from geoh5py import objects
    rng = np.random.default_rng(5)
    if name == "Points":
        return objects.Points.create(ws, vertices=rng.random((3, 3)))
    if name == "Curve":
        return objects.Curve.create(ws, vertices=rng.random((4, 3)))
    if name == "Surface":
        return objects.Surface.create(ws, vertices=rng.random((4, 3)), cells=np.array([[0, 1, 2], [1, 2, 3]]))
    if name == "Grid2D":
        return objects.Grid2D.create(ws, origin=[0, 0, 0], u_cell_size=1.0, v_cell_size=1.0, u_count=2, v_count=2)
    if name == "BlockModel":
        return objects.BlockModel.create(ws, origin=[0, 0, 0], u_cell_delimiters=np.array([0.0, 1, 2]),
                                         v_cell_delimiters=np.array([0.0, 1]), z_cell_delimiters=np.array([0.0, 1]))
    if name == "Octree":
        return objects.Octree.create(ws, origin=[0, 0, 0], u_count=2, v_count=1, w_count=1, u_cell_size=1.0,
                                     v_cell_size=1.0, w_cell_size=1.0)
    raise MachineryError(f"unknown host {name}")


def _refused(obs, exc, prep=False):
    obs.update(verdict="reject", exc=f"{type(exc).__name__}: {str(exc)[:100]}")
    if prep:
        obs["prep"] = True
    return obs


def _host_phase1(ws, item, inst):
    """Host cases: build the host object (and, for `set`, data of ordinary values) in the creating session."""
    c = item["c"]
    name, assoc = c["aux"][0].split(".")
    obs = {"verdict": None, "assoc": assoc}
    try:
        obj = _make_host(ws, name)
        count = obj.n_vertices if assoc == "VERTEX" else obj.n_cells
        obs["obj"] = obj.uid
        data = None
        if c["op"] == "set":
            data = obj.add_data({"d": {"values": _good(c["kind"], count), "type": KIND_TYPE[c["kind"]],
                                       "association": assoc}})
            obs["uid"] = data.uid
    except Exception as exc:  # pylint: disable=broad-except
        return _refused(obs, exc, prep=True)
    if count != _geometry(c, len(inst["elems"])):
        raise MachineryError(f"host {c['aux'][0]} has {count} elements, the case needs {_geometry(c, len(inst['elems']))}")
    if c["aux"][1] == "creating":
        return _host_op(obj, data, item, inst, obs)
    obs["pending"] = True
    return obs


def _host_op(obj, data, item, inst, obs):
    c = item["c"]
    arg = R.build_array(c["src"], inst["elems"])
    try:
        if c["op"] == "set":
            data.values = arg
        else:
            data = obj.add_data({"d2": {"values": arg, "type": KIND_TYPE[c["kind"]], "association": obs["assoc"]}})
        obs.update(verdict="accept", live=data.values, uid=data.uid, live_map=None)
        obs["class"] = type(data).__name__
    except Exception as exc:  # pylint: disable=broad-except
        _refused(obs, exc)
    return obs


def _host_phase2(ws, item, inst, obs):
    """The same request in a later session: the objects come from the re-opened file and nothing has looked at
    their geometry yet."""
    try:
        obj = ws.get_entity(obs["obj"])[0]
        data = ws.get_entity(obs["uid"])[0] if item["c"]["op"] == "set" else None
        if obj is None or (item["c"]["op"] == "set" and data is None):
            raise LookupError("entity not found after re-open")
    except Exception as exc:  # pylint: disable=broad-except
        return _refused(obs, exc, prep=True)
    return _host_op(obj, data, item, inst, obs)


def _concat_phase1(ws, item, inst):
    """Concat cases: a drillhole group with holes A (other data of the same name), B (the values of the case) and
    C (no such data yet)."""
    from geoh5py.groups import DrillholeGroup
    from geoh5py.objects import Drillhole
    c = item["c"]
    obs = {"verdict": None}
    try:
        group = DrillholeGroup.create(ws, name="DH")
        holes = [Drillhole.create(ws, parent=group, name=name, collar=np.r_[10.0 * k, 0.0, 0.0],
                                  surveys=np.c_[[0.0, 10.0], [0.0, 0.0], [-90.0, -90.0]])
                 for k, name in enumerate("ABC")]
        holes[0].add_data({"assay": {"depth": np.arange(3.0), "values": np.array([1.5, np.nan, 3.25], dtype=c["src"])}})
        obs.update(group=group.uid, other=holes[0].uid, hole=holes[1].uid, third=holes[2].uid)
    except Exception as exc:  # pylint: disable=broad-except
        return _refused(obs, exc, prep=True)
    arg = R.build_array(c["src"], inst["elems"])
    try:
        data = holes[1].add_data({"assay": {"depth": np.arange(float(len(arg))), "values": arg}})
        obs.update(verdict="accept", uid=data.uid, live_map=None)
        if c["op"] == "write_read":
            obs["live"] = data.values
        else:
            obs["pending"] = True
    except Exception as exc:  # pylint: disable=broad-except
        _refused(obs, exc)
    return obs


def _concat_phase2(ws, item, inst, obs):
    """Second session: something happens to the other holes of the channel, then B is read for the first time."""
    op = item["c"]["op"]
    try:
        other = ws.get_entity(obs["other"])[0]
        hole = ws.get_entity(obs["hole"])[0]
        if op == "reopen_remove_other":
            other.remove_children(other.get_data("assay"))
        elif op == "reopen_append_other":
            third = ws.get_entity(obs["third"])[0]
            third.add_data({"assay": {"depth": np.arange(2.0), "values": np.array([2.5, np.nan], dtype=item["c"]["src"])}})
        elif op == "reopen_overwrite_other":
            other.get_data("assay")[0].values = np.array([np.nan, 7.0, 8.0], dtype=item["c"]["src"])
        elif op == "reopen_remove_hole":
            ws.remove_entity(other)
        elif op != "reopen_read":
            raise MachineryError(f"unknown concat operation {op}")
    except MachineryError:
        raise
    except Exception as exc:  # pylint: disable=broad-except
        return _refused(obs, exc, prep=True)
    try:
        obs["live"] = hole.get_data("assay")[0].values
    except Exception as exc:  # pylint: disable=broad-except
        obs["live"] = None
        obs["live_exc"] = f"{type(exc).__name__}: {str(exc)[:100]}"
    return obs


def _read_raw(h5, item, obs):
    c = item["c"]
    root = h5[list(h5)[0]]
    raw = {}
    if c["fam"] == "Concat":
        node = root["Groups"]["{%s}" % obs["group"]]["Concatenated Data"]
        if "assay" not in node["Index"]:
            raw["missing"] = True
            return raw
        rows = [r for r in node["Index"]["assay"][()].tolist() if canon_text(r[2]) == "{%s}" % obs["hole"]]
        if len(rows) != 1:
            raw["missing"] = True
            return raw
        dset = node["Data"]["assay"]
        raw["dtype"] = (dset.dtype.kind, dset.dtype.itemsize)
        raw["data"] = dset[()][int(rows[0][0]):int(rows[0][0]) + int(rows[0][1])]
        return raw
    if c["kind"] == "Metadata":
        node = root["Objects"]["{%s}" % obs["obj"]]
        raw["json"] = canon_text(node["Metadata"][()][0]) if "Metadata" in node else None
        return raw
    node = root["Data"].get("{%s}" % obs["uid"])
    if node is None:
        raw["missing"] = True
        return raw
    if c["fam"] == "Blob":
        name = canon_text(node["Data"][()][0]) if "Data" in node else None
        raw["name"] = name
        raw["blob"] = node[name][()].tobytes() if name is not None and name in node else None
        return raw
    if "Data" in node:
        dset = node["Data"]
        raw["dtype"] = (dset.dtype.kind, dset.dtype.itemsize)
        raw["data"] = dset[()]
    if "Type" in node and "Value map" in node["Type"]:
        raw["vmap"] = [(int(k), canon_text(v)) for k, v in node["Type"]["Value map"][()].tolist()]
    return raw


def _read_back(ws, item, obs):
    c = item["c"]
    back = {}
    try:
        if c["fam"] == "Concat":
            back["value"] = ws.get_entity(obs["hole"])[0].get_data("assay")[0].values
            back["map"] = None
            return back
        if c["kind"] in ("Metadata", "Comments"):
            obj = ws.get_entity(obs["obj"])[0]
            if c["kind"] == "Metadata":
                meta = obj.metadata
                back["value"] = meta["key"] if c["op"] == "top" else meta["outer"]["key"]
            else:
                last = obj.comments.values[-1]
                back["value"] = (last["Text"], last["Author"])
            return back
        ent = ws.get_entity(obs["uid"])[0]
        if ent is None:
            back["missing"] = True
            return back
        back["class"] = type(ent).__name__
        if c["fam"] == "Blob":
            back["value"] = (ent.values, ent.file_name)
            return back
        vmap = getattr(ent.entity_type, "value_map", None)
        back["map"] = None if vmap is None else dict(vmap.map)
        back["value"] = ent.values
    except Exception as exc:  # pylint: disable=broad-except
        back["exc"] = f"{type(exc).__name__}: {str(exc)[:100]}"
    return back


_COUNTER = [0]


def _execute(items, insts):
    """Replay the items in one file: write, close, raw read with h5py, re-open with a fresh Workspace."""
    import h5py
    from geoh5py import Workspace
    _COUNTER[0] += 1
    path = os.path.join(scratch(), f"c08_{os.getpid()}_{_COUNTER[0]}.geoh5")
    observations = []
    try:
        with _quiet():
            with Workspace.create(path) as ws:
                for item, inst in zip(items, insts):
                    if item["c"]["fam"] == "Concat":
                        observations.append(_concat_phase1(ws, item, inst))
                    elif _is_host(item["c"]):
                        observations.append(_host_phase1(ws, item, inst))
                    else:
                        observations.append(_write(ws, item, inst))
            if any(obs.get("pending") for obs in observations):
                # a second session on the file: the request (or the scenario around it) happens after a re-open
                with Workspace(path, mode="r+") as ws1:
                    for item, inst, obs in zip(items, insts, observations):
                        if obs.pop("pending", False):
                            (_concat_phase2 if item["c"]["fam"] == "Concat" else _host_phase2)(ws1, item, inst, obs)
        if all(obs["verdict"] == "reject" for obs in observations):
            return observations
        with h5py.File(path, "r") as h5:
            for item, obs in zip(items, observations):
                if obs["verdict"] == "accept":
                    obs["raw"] = _read_raw(h5, item, obs)
        with _quiet():
            with Workspace(path, mode="r") as ws2:
                for item, obs in zip(items, observations):
                    if obs["verdict"] == "accept":
                        obs["back"] = _read_back(ws2, item, obs)
    finally:
        with contextlib.suppress(OSError):
            os.remove(path)
    return observations


# ----------------------------------------------------------------------------- judging one observation
def _mismatches(item, inst, obs, outc):
    """Differences between the observation and the outcome `outc` (the CASE line's `o` or `ab`)."""
    c = item["c"]
    fam, kind = c["fam"], c["kind"]
    bad = []
    if obs["verdict"] != outc["verdict"]:
        return [("verdict", f"implementation {obs['verdict']}s ({obs.get('exc', 'no exception')}), "
                            f"specification says {outc['verdict']} ({outc['reason']})")]
    if obs["verdict"] == "reject":
        return bad
    raw, back = obs.get("raw", {}), obs.get("back", {})
    if raw.get("missing") or back.get("missing"):
        return [("stored", "accepted write left no entity in the file")]
    n_st = len(outc["stored"])

    def want(where, i):
        return _concrete(c, inst, outc, where, i)

    if fam in ("Numeric", "Text", "Concat"):
        txt = fam == "Text"
        same = (lambda g, w: canon_text(g) == canon_text(w)) if txt else eq_num
        if c["op"] == "infer" and obs.get("class") != KIND_CLASS.get(kind):
            bad.append(("kind", f"data inferred as {obs.get('class')} instead of {KIND_CLASS.get(kind)}"))
        # live value
        live = _seq(obs.get("live"))
        if "live_exc" in obs:
            bad.append(("live", f"reading the values in the session of the operation raises {obs['live_exc']}"))
        elif live is None or len(live) != len(outc["live"]):
            bad.append(("live", f"live values {live!r}: expected {len(outc['live'])} entries"))
        else:
            for i, got in enumerate(live):
                tag, val = want("live", i)
                if not same(got, val):
                    bad.append(("live", f"live[{i}]={_item(got)!r} expected {val!r}"))
        # raw dataset
        data = _seq(raw.get("data"))
        if data is None or len(data) != n_st:
            bad.append(("raw", f"raw 'Data' dataset {data!r}: expected {n_st} entries"))
        else:
            k, size = raw["dtype"]
            okt = {"float": k == "f", "int32": (k, size) == ("i", 4), "int8": k in "iu",
                   "utf8": k in "OSU"}[outc["stype"]]
            if not okt:
                bad.append(("raw-type", f"raw 'Data' dataset has dtype {k}{size}, the stored type is {outc['stype']}"))
            for i, got in enumerate(data):
                tag, val = want("stored", i)
                good = is_fndv(got) if tag == "fndv" else same(got, val)
                if not good:
                    bad.append(("raw", f"raw[{i}]={_item(got)!r} expected {'FLOAT_NDV' if tag == 'fndv' else repr(val)}"))
        # after re-open
        if "exc" in back:
            if "Unreadable" not in outc["back"]:
                bad.append(("back", f"reading the values back raises {back['exc']}"))
        elif "Unreadable" in outc["back"]:
            bad.append(("back", "values expected to be unreadable were read"))
        else:
            vals = _seq(back.get("value"))
            if vals is None or len(vals) != n_st:
                bad.append(("back", f"values after re-open {vals!r}: expected {n_st} entries"))
            else:
                for i, got in enumerate(vals):
                    tag, val = want("back", i)
                    if not same(got, val):
                        bad.append(("back", f"after re-open [{i}]={_item(got)!r} expected {val!r}"))
        if outc["zero"] != "none":
            exp = {0: "False", 1: "True"} if kind == "Boolean" else {0: "Unknown", **REF_MAP}
            if sorted(raw.get("vmap") or []) != sorted(exp.items()):
                bad.append(("vmap-raw", f"'Value map' dataset {raw.get('vmap')!r} expected {exp!r}"))
            if back.get("map") != exp and "exc" not in back:
                bad.append(("vmap-back", f"value map after re-open {back.get('map')!r} expected {exp!r}"))
    elif fam == "Map":
        keys, labels = inst["elems"], inst["aux"]
        zero = {"Unknown": "Unknown", "FalseLbl": "False"}[outc["zero"]]
        base = dict(BASE_MAP) if outc.get("base") == "kept" else {}
        live_exp = dict(base)
        live_exp.update({int(k): l for k, l in zip(keys, labels)})
        live_exp.setdefault(0, zero)
        got_live = None if obs.get("live_map") is None else {int(k): v for k, v in obs["live_map"].items()}
        if got_live != live_exp:
            bad.append(("live", f"live value map {got_live!r} expected {live_exp!r}"))
        pairs = [(want("stored", i)[1], labels[i]) for i in range(len(keys))]
        pairs = list(base.items()) + [(int(k), l) for k, l in pairs]
        if all(int(k) != 0 for k in keys):
            pairs.append((0, zero))
        if sorted(raw.get("vmap") or []) != sorted(pairs):
            bad.append(("vmap-raw", f"'Value map' dataset {raw.get('vmap')!r} expected {pairs!r}"))
        exp_back = {}
        for k, l in pairs:
            exp_back[k] = l
        if "exc" in back:
            bad.append(("back", f"reading back raises {back['exc']}"))
        else:
            if back.get("map") != exp_back:
                bad.append(("vmap-back", f"value map after re-open {back.get('map')!r} expected {exp_back!r}"))
            vals = _seq(back.get("value"))
            if vals is None or [int(v) for v in vals] != obs["refs"]:
                bad.append(("back", f"referenced values after re-open {vals!r} expected {obs['refs']!r}"))
            elif back.get("map") is not None:
                # reference keys keep their labels: look the stored data values up in the stored map
                for i, ref in enumerate(obs["refs"]):
                    if ref == int(keys[i]) and outc["back"][i] == c["elems"][i] and back["map"].get(ref) != labels[i]:
                        bad.append(("label", f"key {ref} reads label {back['map'].get(ref)!r} expected {labels[i]!r}"))
    elif kind == "Comments":
        exp = (inst["elems"][0], inst["aux"][0])
        if not (eq_json(obs["live"][0], exp[0]) and eq_json(obs["live"][1], exp[1])):
            bad.append(("live", f"live comment {obs['live']!r} expected {exp!r}"))
        try:
            last = json.loads(canon_text(_seq(raw.get("data"))[0]))["Comments"][-1]
            if not (eq_json(last["Text"], exp[0]) and eq_json(last["Author"], exp[1])):
                bad.append(("raw", f"raw comment {last!r} expected {exp!r}"))
        except Exception as exc:  # pylint: disable=broad-except
            bad.append(("raw", f"raw comments dataset is not the documented JSON ({type(exc).__name__})"))
        if "exc" in back:
            bad.append(("back", f"reading back raises {back['exc']}"))
        elif not (eq_json(back["value"][0], exp[0]) and eq_json(back["value"][1], exp[1])):
            bad.append(("back", f"comment after re-open {back['value']!r} expected {exp!r}"))
    elif kind == "Metadata":
        val = inst["elems"][0]
        if not eq_json(obs["live"], val):
            bad.append(("live", f"live metadata {obs['live']!r} expected {val!r}"))
        try:
            doc = json.loads(raw["json"])
            leaf = doc["key"] if c["op"] == "top" else doc["outer"]["key"]
            exp_raw = "{%s}" % val if isinstance(val, uuidlib.UUID) else val
            if not eq_json(leaf, exp_raw):
                bad.append(("raw", f"raw metadata leaf {leaf!r} expected {exp_raw!r}"))
        except Exception as exc:  # pylint: disable=broad-except
            bad.append(("raw", f"raw Metadata dataset is not JSON with the written key ({type(exc).__name__})"))
        tag, exp = want("back", 0)
        if "exc" in back:
            bad.append(("back", f"reading back raises {back['exc']}"))
        elif not eq_json(back["value"], exp):
            bad.append(("back", f"metadata after re-open {back['value']!r} expected {exp!r}"))
    elif fam == "Blob":
        exp = (inst["elems"][0], inst["aux"][0])
        if obs["live"] != exp:
            bad.append(("live", f"live blob/name {_short(obs['live'])} expected {_short(exp)}"))
        if (raw.get("blob"), raw.get("name")) != exp:
            bad.append(("raw", f"raw blob/name {_short((raw.get('blob'), raw.get('name')))} expected {_short(exp)}"))
        if "exc" in back:
            bad.append(("back", f"reading back raises {back['exc']}"))
        elif back.get("value") != exp:
            bad.append(("back", f"blob/name after re-open {_short(back.get('value'))} expected {_short(exp)}"))
    return bad


def _short(x):
    text = repr(x)
    return text if len(text) < 160 else text[:150] + "...'"


def _describe(item, inst):
    c = item["c"]
    vals = [R.num_value(v) if c["fam"] in ("Numeric", "Concat") else v for v in inst["elems"]]
    return (f"{c['kind']} op={c['op']} src={c['src']} classes={c['elems']}"
            + (f"/{c['aux']}" if c["aux"] else "") + f" lenrel={c['lenrel']} values={_short(vals)}"
            + (f" aux={_short(inst['aux'])}" if inst["aux"] else ""))


def _observed(obs):
    if obs["verdict"] == "reject":
        return f"raises {obs.get('exc')}"
    raw, back = obs.get("raw", {}), obs.get("back", {})
    parts = ["accepted"]
    if obs.get("live") is not None:
        parts.append(f"live={_short(_seq(obs['live']))}")
    if raw.get("data") is not None:
        parts.append(f"raw={_short(_seq(raw['data']))}")
    if raw.get("vmap") is not None:
        parts.append(f"raw value map={_short(raw['vmap'])}")
    parts.append(f"after re-open: {back['exc'] if 'exc' in back else _short(back.get('value'))}")
    return " ".join(parts)


def judge(item, inst, obs):
    """-> (violations, tag).  tag in ok | drift | dev:<signature> | violation"""
    c, o, ab = item["c"], item["o"], item["ab"]
    doc = {k: item[k] for k in ("c", "o", "ab", "pick", "seed", "extra")}
    if obs.get("prep"):
        summary = f"{_describe(item, inst)}: the preparatory write of ordinary values is refused: {obs['exc']}"
        return [{"signature": f"refused-ordinary-value:{c['kind']}", "summary": summary, "case": doc}], "violation"
    lenient = o["optional"]  # C08 does not decide the verdict; an accepted write must still round-trip
    if lenient and obs["verdict"] == "reject":
        return [], ("ok" if o["verdict"] == "reject" else "drift")
    ideal = dict(o, verdict="accept") if lenient else o
    bad = _mismatches(item, inst, obs, ideal)
    if not bad:
        return [], ("drift" if lenient and o["verdict"] == "reject" else "ok")
    ab_differs = any(ab[k] != o[k] for k in ("verdict", "stored", "live", "back"))
    devs = sorted({d for d in list(o["devs"]) + [o.get("cdev", "")] if d})
    if ab_differs and devs and not _mismatches(item, inst, obs, ab):
        sig = "+".join(DEV_SIG[d] for d in devs)
        summary = (f"{_describe(item, inst)}: the specification demands {o['verdict']} ({o['reason']}); geoh5py "
                   f"answers exactly like the named deviation {'+'.join(devs)}: {_observed(obs)}")
        return [{"signature": sig, "summary": summary, "case": doc}], "dev:" + sig
    where = bad[0][0]
    if where == "verdict":
        sig = ("accepted-unrepresentable" if o["verdict"] == "reject" and o["reason"] != "source-refused"
               else "refused-supported-value")
        if o["reason"] in ("too-long", "unsupported-type") and o["verdict"] == "reject":
            sig = "accepted-" + o["reason"]
    else:
        sig = "altered-" + where
    summary = f"{_describe(item, inst)}: " + "; ".join(m for _, m in bad[:3]) + f" [{_observed(obs)}]"
    return [{"signature": f"{sig}:{c['kind']}", "summary": summary, "case": doc}], "violation"


# ----------------------------------------------------------------------------- batch worker
def _replay_task(units):
    """units: lists of items; the items of one unit share a file."""
    viol, stats = [], Counter()
    for unit in units:
        part = _replay_batch(unit)
        viol += part["viol"]
        stats.update(part["stats"])
    return {"viol": viol, "stats": dict(stats)}


def _clean_refusal(item):
    """Numeric requests are refused before anything is written; a refused text / map / json / blob write may leave
    a half-written dataset behind that makes the file unreadable (see notes/C08.md).  Such cases share files only
    among themselves: a file whose writes were all refused is never re-opened."""
    return (item["c"]["fam"] in ("Numeric", "Concat") and not _is_host(item["c"])
            ) or "accept" in (item["o"]["verdict"], item["ab"]["verdict"])


_CONFIRMED = Counter()


def _replay_batch(items):
    insts = [instantiate(it) for it in items]
    stats = Counter()
    viol = []
    try:
        observations = _execute(items, insts)
    except Exception:  # pylint: disable=broad-except
        observations = None  # one case broke the shared file: replay each case in a file of its own
        stats["batches_replayed_singly"] += len(items) > 1
    for idx, (item, inst) in enumerate(zip(items, insts)):
        res = None
        if observations is not None:
            res = judge(item, inst, observations[idx])
        if res is None or (res[0] and _CONFIRMED[res[0][0]["signature"]] < MAX_PER_SIGNATURE):
            res = _judge_alone(item, inst)  # a reported finding must reproduce in a file of its own
            if res[0]:
                _CONFIRMED[res[0][0]["signature"]] += 1
        viol += res[0]
        stats["tag:" + res[1].split(":")[0]] += 1
        stats["fam:" + item["c"]["fam"]] += 1
        stats["kind:" + item["c"]["kind"]] += 1
        if _is_host(item["c"]):
            stats["host:" + ":".join(item["c"]["aux"])] += 1
        stats["verdict:" + item["o"]["verdict"] + ":" + item["o"]["reason"]] += 1
        for which in ("elems", "aux"):
            for cls in item["c"][which]:
                stats["class:" + cls] += 1
    return {"viol": viol, "stats": dict(stats)}


def _wrapped_map_invalid(item, inst):
    """Deviation MapKeyWrapsU32, second consequence: when a wrapped key lands on key 0 the rows of the stored
    'Value map' (read in order, later rows win: h5_reader.py:429-433) can give key 0 a label other than 'Unknown';
    ReferenceValueMap then refuses the map while the tree is loaded and the file no longer opens."""
    c, ab = item["c"], item["ab"]
    if c["fam"] != "Map" or ab["verdict"] != "accept" or "WrapU32" not in ab["stored"]:
        return False
    rows = {}
    try:
        for key, label in zip(inst["elems"], inst["aux"]):
            rows[int(key) % 2 ** 32] = label
    except (TypeError, ValueError):
        return False
    if all(int(k) != 0 for k in inst["elems"]):
        rows[0] = "Unknown"
    return rows.get(0) != "Unknown" and rows != {0: "False", 1: "True"}


def _judge_alone(item, inst):
    try:
        obs = _execute([item], [inst])[0]
    except Exception as exc:  # pylint: disable=broad-except
        # the write was let through and the file can no longer be closed / re-opened
        doc = {k: item[k] for k in ("c", "o", "ab", "pick", "seed", "extra")}
        if _wrapped_map_invalid(item, inst):
            sig = DEV_SIG["MapKeyWrapsU32"]
            summary = (f"{_describe(item, inst)}: the specification demands reject (unrepresentable); geoh5py accepts, "
                       f"the key wraps modulo 2^32 onto key 0 (named deviation MapKeyWrapsU32) and the file can no "
                       f"longer be opened: {type(exc).__name__}: {str(exc)[:120]}")
            return [{"signature": sig, "summary": summary, "case": doc}], "dev:" + sig
        summary = f"{_describe(item, inst)}: closing or re-opening the file raises {type(exc).__name__}: {str(exc)[:120]}"
        return [{"signature": f"file-unusable-after-write:{item['c']['kind']}", "summary": summary, "case": doc}], "violation"
    return judge(item, inst, obs)


# ----------------------------------------------------------------------------- entry points
def _check_constants():
    from geoh5py.shared import FLOAT_NDV, INTEGER_NDV
    if FLOAT_NDV != R.FLOAT_NDV or INTEGER_NDV != R.INTEGER_NDV:
        # the sentinels themselves are state named by the property (shared/__init__.py:25-26)
        return [{"signature": "no-data-sentinel-changed", "case": {"sentinels": True},
                 "summary": f"FLOAT_NDV={FLOAT_NDV!r} INTEGER_NDV={INTEGER_NDV!r}; the format documents "
                            f"{R.FLOAT_NDV!r} and {R.INTEGER_NDV!r}"}]
    return []


def run(tier, seed):
    par = TIER[tier]
    res, cases = funcheck.enumerate_cases("values", "ValueCodec", CFG[tier], workers=1, heap="4g")
    items = []
    cases = [expand_host(case) for case in cases]
    for case in cases:
        for pick in range(n_picks(case["c"], par["extra"], seed, par["picks"])):
            items.append({"c": case["c"], "o": case["o"], "ab": case["ab"], "pick": pick, "seed": seed,
                          "extra": par["extra"]})
    # deterministic partition into units of ~BATCH items that share a file; interleaved over tasks
    units = []
    alone = [it for it in items if it["c"]["fam"] == "Map" and _wrapped_map_invalid(it, instantiate(it))]
    rest = [it for it in items if not (it["c"]["fam"] == "Map" and _wrapped_map_invalid(it, instantiate(it)))]
    sessions = [it for it in rest if it["c"]["fam"] == "Concat" or _is_host(it["c"])]  # files with a second session
    rest = [it for it in rest if not (it["c"]["fam"] == "Concat" or _is_host(it["c"]))]
    units += [sessions[i::max(1, len(sessions) // 16)] for i in range(max(1, len(sessions) // 16))]
    for group in ([it for it in rest if _clean_refusal(it)], [it for it in rest if not _clean_refusal(it)]):
        n_units = max(1, len(group) // BATCH)
        units += [group[i::n_units] for i in range(n_units) if group[i::n_units]]
    units += [[it] for it in alone]  # predicted by MapKeyWrapsU32 to leave a file that cannot be re-opened
    n_tasks = max(1, min(len(units), 16 * 12))
    tasks = [units[i::n_tasks] for i in range(n_tasks)]
    viol = _check_constants()
    import time
    t0 = time.time()
    out = pmap(_replay_task, tasks, chunksize=1)
    wall = time.time() - t0
    stats = Counter()
    for part in out:
        viol += part["viol"]
        stats.update(part["stats"])
    neg = [funcheck.expect_violation("values", "ValueCodec", cfg, inv).violated for cfg, inv in NEG]
    # vacuity
    for fam in ("Numeric", "Text", "Json", "Blob", "Map", "Concat"):
        if stats["fam:" + fam] == 0:
            raise MachineryError(f"no case of family {fam} was replayed")
    for need in ("NaN", "PosInf", "NegInf", "Subnormal", "FloatNDV", "NearNDV", "Frac", "IntSmall", "Zero", "One", "Two",
                 "Int32Max", "Int32MinPlus1", "IntNDV", "Int32Over", "Int32Under", "IntHuge", "Ascii", "Latin1",
                 "BMP", "Astral", "Empty", "LooksLikeUuid", "NonUtf8", "Key0", "KeyOverU32", "Unknown", "BlobBinary"):
        if stats["class:" + need] == 0:
            raise MachineryError(f"class {need} was never instantiated")
    for need in ("accept:ok", "reject:unrepresentable", "reject:too-long", "reject:unsupported-type",
                 "reject:source-refused"):
        if stats["verdict:" + need] == 0:
            raise MachineryError(f"no case with specified outcome {need}")
    by_sig = Counter(v["signature"] for v in viol)
    kept, seen = [], Counter()
    for v in sorted(viol, key=lambda v: (v["signature"], len(json.dumps(v["case"], default=str)))):
        seen[v["signature"]] += 1
        if seen[v["signature"]] <= MAX_PER_SIGNATURE:
            kept.append(v)
    # values seen through the drillhole-group tables (a per-hole view of the shared concatenated channels) are decided
    # by spec/concat/DrillholeConcat.tla: its deep export (three holes sharing a channel, SetValues, table reads) runs
    # through the C04 engine
    from . import C04
    cviol, ccov = C04.run_subset([("DrillholeConcatExportDeep.cfg", 21, 250 if tier == "quick" else None)], seed)
    for v in cviol:
        if v["signature"].startswith("asbuilt:"):
            continue        # recorded findings of C04 itself (reported by ./check C04)
        w = dict(v)
        w["signature"] = "concat:" + v["signature"]
        w["case"] = {"concat": v.get("case")}
        kept.append(w)
    mid = cases[len(cases) // 2]
    sample_item = {"c": mid["c"], "o": mid["o"], "ab": mid["ab"], "pick": 0, "seed": seed, "extra": par["extra"]}
    return {
        "level": "model_checking",
        "violations": kept,
        "coverage": {
            "states": res.distinct, "transitions": res.generated,
            "traces_validated_against_impl": len(items),
            "cases_enumerated": len(cases), "exhaustive": True,
            "samples": [{"case": mid["c"], "outcome": mid["o"],
                         "values": _short(instantiate(sample_item))}],
            "replay_wall_s": round(wall, 1), "tlc_wall_s": round(res.wall_s, 1),
            "concatenated_tables": ccov,
            "replays_by_family": {k[4:]: v for k, v in sorted(stats.items()) if k.startswith("fam:")},
            "replays_by_kind": {k[5:]: v for k, v in sorted(stats.items()) if k.startswith("kind:")},
            "replays_by_specified_outcome": {k[8:]: v for k, v in sorted(stats.items()) if k.startswith("verdict:")},
            "replays_by_result": {k[4:]: v for k, v in sorted(stats.items()) if k.startswith("tag:")},
            "classes_instantiated": sum(1 for k in stats if k.startswith("class:")),
            "violating_replays_by_signature": dict(sorted(by_sig.items())),
            "batches_replayed_singly": stats["batches_replayed_singly"],
            "negative_controls": [f"{cfg}: {inv} violated ({got})" for (cfg, inv), got in zip(NEG, neg)],
            "rule": "TLC enumerates the whole class table of the cfg (every family x kind x operation x source "
                    "dtype/form x sequences of <= 2 element classes x length relation) and checks RoundTrip, "
                    "UnrepresentableRejected, UnsupportedTypeRejected, NoAlteredCode, NaNIsFloatNDV, IntGapIsIntNDV, "
                    "BooleansAreBits, KeyZeroIsUnknown, LengthRule on the outcome the spec defines; every exported "
                    "CASE is replayed with concrete class members (single-element cases: every boundary member and "
                    "the seeded random members; other cases: rotating members) through add_data / values setter / "
                    "value_map / add_comment / metadata / add_file on a Points object in a real file; verdict, live "
                    "value, raw 'Data' and 'Value map' datasets (h5py) and the value after re-open are compared",
        },
        "assumptions": [
            "class abstraction: behaviour is assumed uniform inside a value class (element classes, source dtype "
            "classes, length relations of spec/values/ValueCodec.tla); arbitrary bit patterns inside a class are "
            "sampled (boundaries + seeded random members), not exhausted",
            "arrays carry <= 2 element classes (one bad element among good ones, both orders); quick enumerates "
            "pairs that contain an anchor class or repeat a class, thorough every pair",
            "any exception raised by the write counts as 'rejected'; a value the code refuses although it is "
            "representable (integer arrays into float data, numpy ints in metadata, empty blobs, ...) is not a "
            "violation (C08 only forbids silent alteration) - if it is accepted the round trip must hold",
            "text arrays are stored verbatim whatever the vertex count (only numeric data is length-checked by the "
            "code: numeric_data.py:74-98); bytes and str are compared as text (UTF-8)",
            "float -> int32 conversion of out-of-range floats is the C cast's platform value (INT_MIN on x86-64)",
            "the HDF5 library, h5py and numpy are trusted; VERTEX association on Points; concatenated (drillhole) "
            "data is not exercised",
        ],
    }


def replay(doc):
    case = doc["case"]
    if "concat" in case:
        from . import C04
        rep = C04.replay({"case": case["concat"]})
        for v in rep["violations"]:
            v["signature"] = "concat:" + v["signature"]
        return rep
    if case.get("sentinels"):
        return {"violations": _check_constants(), "coverage": {"replayed": 1}}
    scratch()
    item = {k: case[k] for k in ("c", "o", "ab", "pick", "seed", "extra")}
    viol, _ = _judge_alone(item, instantiate(item))
    return {"violations": viol, "coverage": {"replayed": 1}}
