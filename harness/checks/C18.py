"""C18 - drillhole positions follow the survey.

Specs (spec/desurvey): SurveyPath.tla (exact rational path), Desurvey.tla (function-style: every
survey table x query grid), DesurveyCache.tla (collar / surveys setters vs the _locations cache),
DrillholeLog.tla (add_data with depth / interval data: vertices, cells, value arrays).

All expected positions, states and outcomes are the ones TLC printed.  The harness only converts
them to the API's units: a rational direction (x, y, z) to azimuth = atan2(x, y), dip = asin(z) in
degrees, ticks to depths (tick / 1000), value tokens to float / text values.
"""
from __future__ import annotations

import itertools
import math
import multiprocessing as mp
import os
import random
from concurrent.futures import ThreadPoolExecutor

import numpy as np

from .. import funcheck, graph
from ..pool import pmap, scratch
from ..tlc import MachineryError, build_graph, run_tlc

AREA = "desurvey"
# The survey table is stored as float32 (drillhole.py:269-273): an angle of up to 360 degrees
# carries a rounding error of 1.5e-5 degrees = 2.7e-7 rad, i.e. at most 4e-6 length units at the
# deepest query depth (5.5) plus float64 noise on collars of magnitude 1e3.  The smallest effect of
# any modelled alternative (a neighbouring tick, another leg direction) is 2e-3.
POS_TOL = 4e-5
HEAP = "4g"
TLC_WORKERS = max(1, min(8, int(os.environ.get("VERIF_PROCS", "16")) // 2))

SIG_ZERO_LEG = "desurvey-final-station-at-repeated-depth-ignored"
SIG_SORT_TEXT = "depth-text-values-not-reordered-by-sort_depths"
SIG_TRUNC_TEXT = "interval-text-value-truncated-on-collocated-match"
SIG_MIDCALL = "depth-set-after-interval-set-in-one-call-misaligned"
TEXT_DEVS = ("SortSkipsText", "TextMatchTruncated")
CALL_DEVS = ("MidCallDepthShort",)
DEV_SIG = {"SortSkipsText": SIG_SORT_TEXT, "TextMatchTruncated": SIG_TRUNC_TEXT, "MidCallDepthShort": SIG_MIDCALL}


# ------------------------------------------------------------------ conversions
def rat(x):
    return x[0] / x[1]


def vec(v):
    return [rat(v[0]), rat(v[1]), rat(v[2])]


def az_dip(direction):
    x, y, z = vec(direction)
    return math.degrees(math.atan2(x, y)) % 360.0, math.degrees(math.asin(max(-1.0, min(1.0, z))))


def survey_array(table, dirs):
    return np.array([[float(row["d"]), *az_dip(d)] for row, d in zip(table, dirs)])


def _viol(sig, msg, case):
    return {"signature": sig, "summary": msg, "case": case}


class _Flaky(Exception):
    pass


def _desurvey(hole, depths, retry):
    """desurvey with the NaN guard: compute_deviation leaves the quotient of zero-length legs
    uninitialised (np.divide(..., where=) without out=, drillhole.py:746); a non-finite result that
    does not reproduce is machinery-level flakiness, a reproducible one is an answer like any other."""
    got = np.asarray(hole.desurvey(depths), dtype=float)
    if np.isfinite(got).all():
        return got
    again = [np.asarray(retry().desurvey(depths), dtype=float) for _ in range(3)]
    if all(not np.isfinite(a).all() for a in again):
        return got
    raise _Flaky("desurvey returned non-finite values that did not reproduce (uninitialised "
                 "np.divide output in compute_deviation, drillhole.py:746)")


# ------------------------------------------------------------------ 1. Desurvey.tla
def _replay_desurvey(item):
    case, mode, seed = item
    from geoh5py import Workspace
    from geoh5py.groups import DrillholeGroup
    from geoh5py.objects import Drillhole
    viol = []
    rcase = {"kind": "desurvey", "case": case, "mode": mode, "seed": seed}
    want = np.array([vec(p) for p in case["pos"]])
    asb = np.array([vec(p) for p in case["asbuilt"]])
    depths = np.arange(len(want)) / 2.0
    order = list(range(len(depths)))
    random.Random(seed).shuffle(order)          # desurvey must not depend on the order of the queries
    order = np.array(order)
    collar = vec(case["collar"])
    surveys = survey_array(case["table"], case["dirs"])
    path = None
    if mode in ("file1", "concat"):
        path = os.path.join(scratch(), f"c18_{os.getpid()}_{seed}.geoh5")
        if os.path.exists(path):
            os.remove(path)

    def make(ws):
        parent = None
        if mode == "concat":
            parent = DrillholeGroup.create(ws, name="grp")
        kw = {"collar": collar, "name": "hole"}
        if parent is not None:
            kw["parent"] = parent
        if mode == "nosurvey":
            return Drillhole.create(ws, **kw)
        if mode == "setafter":
            hole = Drillhole.create(ws, **kw)
            hole.desurvey(depths)               # fills the cache with the default survey
            hole.surveys = surveys
            return hole
        return Drillhole.create(ws, surveys=surveys, **kw)

    def verdict(got, where):
        if got.shape != want.shape:
            viol.append(_viol("desurvey-shape", f"{where}: shape {got.shape} expected {want.shape}", rcase))
            return
        err = np.abs(got - want[order]).max(axis=1)
        if (err <= POS_TOL).all():
            return
        k = int(order[int(np.argmax(err > POS_TOL))])
        text = (f"{where}: table {case['table']} collar {collar}: depth {k / 2} -> "
                f"{got[list(order).index(k)].tolist()} expected {want[k].tolist()}")
        if not np.isfinite(got).all():
            viol.append(_viol("desurvey-non-finite", text, rcase))
        elif np.abs(asb - want).max() > 100 * POS_TOL and (np.abs(got - asb[order]).max(axis=1) <= POS_TOL).all():
            # exactly the answer of the named deviation ZeroLegKeepsInDir of SurveyPath.tla
            viol.append(_viol(SIG_ZERO_LEG, text, rcase))
        else:
            viol.append(_viol("desurvey-off-path", text, rcase))

    try:
        if path is None:
            ws = _shared_ws()
            hole = make(ws)
            verdict(_desurvey(hole, depths[order], lambda: make(ws)), mode)
            verdict(_desurvey(hole, list(depths[order]), lambda: make(ws)), mode + "/list")
        else:
            ws = Workspace.create(path, version=1.0 if mode == "file1" else 2.1)
            hole = make(ws)
            verdict(_desurvey(hole, depths[order], lambda: hole), mode + "/live")
            ws.close()
            ws = Workspace(path, mode="r")
            hole = ws.get_entity("hole")[0]
            verdict(_desurvey(hole, depths[order], lambda: hole), mode + "/re-opened")
            ws.close()
    except _Flaky as exc:
        return [{"machinery": str(exc)}]
    except Exception as exc:  # pylint: disable=broad-except
        viol.append(_viol(f"desurvey-raises:{type(exc).__name__}", f"{mode}: {type(exc).__name__}: {exc} "
                          f"table {case['table']}", rcase))
    finally:
        if path is not None and os.path.exists(path):
            os.remove(path)
    return viol


_WS = [None, 0]


def _shared_ws():
    """in-memory version 1.0 workspace of this worker, renewed every 200 holes (creation costs 15 ms)"""
    from geoh5py import Workspace
    if _WS[0] is None or _WS[1] >= 200:
        if _WS[0] is not None:
            _WS[0].close()
        _WS[0], _WS[1] = Workspace(version=1.0), 0
    _WS[1] += 1
    return _WS[0]


def _desurvey_items(cases, seed, n_file):
    rng = random.Random(seed)
    items = []
    file_idx = set(rng.sample(range(len(cases)), min(n_file, len(cases))))
    for i, case in enumerate(cases):
        mode = "create" if i % 3 else "setafter"
        items.append((case, mode, seed * 1000003 + i))
        if i in file_idx:
            items.append((case, "concat" if len(items) % 2 else "file1", seed * 1000003 + i))
        if [(r["d"], r["dir"]) for r in case["table"]] == [(0, 1)]:
            items.append((case, "nosurvey", seed * 1000003 + i))      # default survey = straight down from 0
    return items


# ------------------------------------------------------------------ 2. DesurveyCache.tla
def _replay_cache(item):
    pos, init, steps, mode = item
    from geoh5py import Workspace
    from geoh5py.groups import DrillholeGroup
    from geoh5py.objects import Drillhole
    rcase = {"kind": "cache", "pos": pos, "init": init, "steps": steps, "mode": mode}
    viol = []
    nq = len(pos["path"][0][0])
    depths = np.arange(nq) / 2.0

    def sv(t):
        return survey_array(pos["tables"][t - 1], pos["dirs"][t - 1])

    def collar(c):
        return vec(pos["collars"][c - 1])
    path = os.path.join(scratch(), f"c18c_{os.getpid()}.geoh5")
    if os.path.exists(path):
        os.remove(path)
    try:
        if mode == "concat":
            ws = Workspace.create(path, version=2.1)
            parent = DrillholeGroup.create(ws, name="grp")
            hole = Drillhole.create(ws, parent=parent, collar=collar(init[1]), surveys=sv(init[0]), name="hole")
        else:
            ws = Workspace(version=1.0)
            hole = Drillhole.create(ws, collar=collar(init[1]), surveys=sv(init[0]), name="hole")
        for n, (label, state) in enumerate(steps):
            if label["act"] == "SetSurveys":
                hole.surveys = sv(label["args"][0])
            elif label["act"] == "SetCollar":
                hole.collar = collar(label["args"][0])
            else:
                tab, col = label["out"]
                if [tab, col] != [state["tab"], state["col"]]:
                    raise MachineryError("DesurveyCache export: Query outcome is not the current state")
                want = np.array([vec(p) for p in pos["path"][tab - 1][col - 1]])
                got = _desurvey(hole, depths, lambda: hole)
                err = np.abs(got - want).max(axis=1)
                if not (err <= POS_TOL).all():
                    k = int(np.argmax(err > POS_TOL))
                    viol.append(_viol("desurvey-after-setters-off-path",
                                      f"{mode}: step {n} after {[s[0]['act'] for s in steps[:n]]}: depth {k / 2} -> "
                                      f"{got[k].tolist()} expected {want[k].tolist()} (table {tab}, collar {col})",
                                      rcase))
                    break
        ws.close()
    except _Flaky as exc:
        return [{"machinery": str(exc)}]
    except Exception as exc:  # pylint: disable=broad-except
        viol.append(_viol(f"desurvey-setter-raises:{type(exc).__name__}", f"{type(exc).__name__}: {exc}", rcase))
    finally:
        if os.path.exists(path):
            os.remove(path)
    return viol


CACHE_CFG = {"quick": "DesurveyCache.cfg", "thorough": "DesurveyCacheThorough.cfg"}


def _run_cache(tier, seed):
    res = run_tlc(AREA, "DesurveyCache", CACHE_CFG[tier], workers=1, heap=HEAP)
    if not res.ok:
        raise MachineryError(f"DesurveyCache violates {res.violated}")
    pos = next(obj for tag, _, obj in res.lines if tag == "POS")
    g = build_graph(res.lines)
    init = graph.split_init(res.lines)
    paths, covered, unreachable = graph.path_cover(g.states, g.edges, init, max_len=30, rng=random.Random(seed))
    if unreachable or covered != len(g.edges):
        raise MachineryError("DesurveyCache: path cover incomplete")
    items = []
    for n, p in enumerate(paths):
        first = g.states[g.edges[p[0]][0]]
        steps = [(g.edges[i][2], g.states[g.edges[i][1]]) for i in p]
        if not any(lbl["act"] == "Query" for lbl, _ in steps):
            steps.append(({"act": "Query", "args": [], "out": [steps[-1][1]["tab"], steps[-1][1]["col"]]}, steps[-1][1]))
        items.append((pos, [first["tab"], first["col"]], steps, "concat" if n % 3 == 2 else "plain"))
    out = pmap(_replay_cache, items)
    n_query = sum(1 for it in items for lbl, _ in it[2] if lbl["act"] == "Query")
    return res, out, len(items), n_query, {"init": items[0][1], "steps": [s[0] for s in items[0][2]][:8]}


# ------------------------------------------------------------------ 3. DrillholeLog.tla
def _value(tok, kind):
    """value handed to add_data / expected in the arrays for a token of the spec"""
    if tok == -1:
        return None
    if tok < -100:                                   # Trunc(tok): the text cut to its first character
        return _value(-tok - 100, kind)[:1]
    return float(tok) + 0.5 if kind == "float" else f"t{tok}x"


def _expected_rows(state):
    kinds = [d["kind"] for d in state["data"]]
    vcols = [k for k, d in enumerate(state["data"]) if d["assoc"] == "V"]
    ccols = [k for k, d in enumerate(state["data"]) if d["assoc"] == "C"]
    depth = state["depth"] if state["hasDepth"] else [-1] * len(state["verts"])
    vrows = sorted((state["verts"][i], depth[i],
                    tuple(repr(_value(state["data"][k]["vals"][i], kinds[k])) for k in vcols))
                   for i in range(len(state["verts"])))
    crows = sorted((state["ft"][c][0], state["ft"][c][1], state["verts"][state["cells"][c][0]],
                    state["verts"][state["cells"][c][1]],
                    tuple(repr(_value(state["data"][k]["vals"][c], kinds[k])) for k in ccols))
                   for c in range(len(state["cells"])))
    return vrows, crows


def _tick_of_depth(x):
    if x is None or (isinstance(x, float) and math.isnan(x)):
        return -1
    t = round(float(x) * 1000)
    return t if abs(float(x) * 1000 - t) < 0.02 else -1000000 - t      # not a modelled depth


def _norm_values(values, n, text):
    if isinstance(values, (str, bytes)):             # a one-element text array reads back as a bare str
        values = [values.decode() if isinstance(values, bytes) else values]
    vals = [] if values is None else list(np.asarray(values).tolist())
    if len(vals) > n:
        return None
    out = []
    for v in vals + [None] * (n - len(vals)):        # arrays left short read back padded with no-data
        if v is None or (isinstance(v, float) and math.isnan(v)) or (text and v in ("", "nan")):
            out.append(None)
        else:
            out.append(str(v) if text else float(v))
    return out


def _observe(hole, state, postab):
    """canonical rows of the implementation, or (None, problem)"""
    verts = np.zeros((0, 3)) if hole.vertices is None else np.asarray(hole.vertices, dtype=float)
    ticks = []
    tick_list = list(postab)
    ref = np.array([postab[t] for t in tick_list])
    for v in verts:
        err = np.abs(ref - v).max(axis=1)
        j = int(np.argmin(err))
        if not err[j] <= POS_TOL:
            return None, ("log-vertex-off-path", f"vertex {v.tolist()} is at none of the modelled depths "
                          f"(nearest: depth {tick_list[j] / 1000} at {ref[j].tolist()})")
        ticks.append(tick_list[j])
    n = len(ticks)
    cells = np.zeros((0, 2), dtype=int) if hole.cells is None else np.asarray(hole.cells).astype(int)
    if cells.size and (cells.max() >= n or cells.min() < 0):
        return None, ("log-cell-index-out-of-range", f"cells {cells.tolist()} with {n} vertices")
    named = {}
    for child in hole.children:
        if hasattr(child, "association") and hasattr(child, "values"):
            named.setdefault(child.name, []).append(child)
    for name, lst in named.items():
        if len(lst) > 1:
            return None, ("log-duplicate-data", f"two data named {name}")

    def column(name, count, text=False):
        if name not in named:
            return None
        return _norm_values(named[name][0].values, count, text)
    depth = column("DEPTH", n)
    if depth is None:
        if "DEPTH" in named:
            return None, ("log-array-too-long", "DEPTH longer than the vertices")
        depth = [None] * n
    if state["hasDepth"] != ("DEPTH" in named):
        return None, ("log-depth-data-presence", f"DEPTH data present: {'DEPTH' in named}")
    frm, to_ = column("FROM", len(cells)), column("TO", len(cells))
    if len(cells) and (frm is None or to_ is None):
        return None, ("log-from-to-missing", "cells without FROM / TO data of matching length")
    vcols, ccols = [], []
    for k, d in enumerate(state["data"]):
        col = column(f"d{k + 1}", n if d["assoc"] == "V" else len(cells), d["kind"] == "text")
        if col is None:
            return None, ("log-data-missing", f"data d{k + 1} missing or longer than its association")
        assoc = named[f"d{k + 1}"][0].association.name
        if assoc != ("VERTEX" if d["assoc"] == "V" else "CELL"):
            return None, ("log-association", f"data d{k + 1} has association {assoc}")
        (vcols if d["assoc"] == "V" else ccols).append(col)
    vrows = sorted((ticks[i], _tick_of_depth(depth[i]), tuple(repr(c[i]) for c in vcols)) for i in range(n))
    crows = sorted((_tick_of_depth(frm[c]), _tick_of_depth(to_[c]), ticks[cells[c][0]], ticks[cells[c][1]],
                    tuple(repr(col[c]) for col in ccols)) for c in range(len(cells)))
    return (vrows, crows), None


def _compare(hole, state, postab, where):
    got, problem = _observe(hole, state, postab)
    if problem:
        return problem[0], f"{where}: {problem[1]}"
    want = _expected_rows(state)
    if got == want:
        return None
    if [r[:2] for r in got[0]] != [r[:2] for r in want[0]]:
        return "log-vertex-depth-mismatch", (f"{where}: (position depth, DEPTH value) per vertex "
                                             f"{[r[:2] for r in got[0]]} expected {[r[:2] for r in want[0]]}")
    if [r[:4] for r in got[1]] != [r[:4] for r in want[1]]:
        return "log-cell-mismatch", (f"{where}: (FROM, TO, depth of vertex 0, depth of vertex 1) per cell "
                                     f"{[r[:4] for r in got[1]]} expected {[r[:4] for r in want[1]]}")
    if got[0] != want[0]:
        return "log-depth-value-misattached", f"{where}: vertex rows {got[0]} expected {want[0]}"
    return "log-interval-value-misattached", f"{where}: cell rows {got[1]} expected {want[1]}"


def _flag_findings(state, devs):
    """signatures of the named deviations (devs = those of the exported graph) whose effect TLC flagged in
    this state: the property predicates are evaluated by TLC, the harness only attributes them"""
    sigs = set()
    misaligned = not state["vertexAtDepth"]
    if misaligned:
        sigs.add(SIG_MIDCALL if "MidCallDepthShort" in devs else "log-model-state-violates-property")
    for entry in list(state["lost"]) + list(state["stray"]):
        if entry["kind"] == "text" and entry["assoc"] == "V" and "SortSkipsText" in devs:
            sigs.add(SIG_SORT_TEXT)
        elif entry["assoc"] == "V" and "MidCallDepthShort" in devs:
            sigs.add(SIG_MIDCALL)                    # value on a vertex whose DEPTH entry went elsewhere
        elif entry["kind"] == "text" and entry["assoc"] == "C" and "TextMatchTruncated" in devs:
            sigs.add(SIG_TRUNC_TEXT)
        else:
            sigs.add("log-model-state-violates-property")
    if not (state["aligned"] and state["cellsJoin"]):
        sigs.add("log-model-state-violates-property")
    return sigs


def _replay_log(item):
    """item: pos export, table index (0-based), mode, steps [(label, state)], seed.
    Returns {"viol": [...], "steps": n, "mismatch": bool}"""
    pos, tab, mode, steps, seed = item
    from geoh5py import Workspace
    from geoh5py.objects import Drillhole
    rcase = {"kind": "log", "pos": pos, "table": tab, "mode": mode, "steps": steps, "seed": seed}
    postab = {t: vec(p) for t, p in zip(pos["ticks"], pos["pos"][tab])}
    viol, done, mismatch = [], 0, False
    path = None
    if mode != "live":
        path = os.path.join(scratch(), f"c18l_{os.getpid()}.geoh5")
        if os.path.exists(path):
            os.remove(path)
        ws = Workspace.create(path, version=1.0 if mode == "reopen1" else 2.1)
    else:
        ws = Workspace(version=1.0)
    try:
        hole = Drillhole.create(ws, collar=vec(pos["collar"]), name="hole",
                                surveys=survey_array(pos["tables"][tab], pos["dirs"][tab]))
        seen = set()
        devs = pos["devs"]
        call, desc = {}, []
        orig = None
        for n, (label, state) in enumerate(steps):
            if label["act"] == "Copy":                          # the history goes on with the copy
                orig, hole = hole, hole.copy(name="copy")
                diff = _compare(hole, state, postab, f"{mode} table {tab + 1} step {n + 1}: copy()") or \
                    _compare(orig, state["frozen"], postab, f"{mode} table {tab + 1} step {n + 1}: original after copy()")
                if diff is not None:
                    viol.append(_viol("log-copy:" + diff[0], diff[1], rcase))
                    mismatch = True
                    break
                continue
            args = label["args"]
            kind = args["kind"]
            attrs = {"values": np.array([_value(t, kind) for t in args["toks"]])}
            if label["act"] == "AddDepth":
                attrs["depth"] = np.array([a[0] for a in args["at"]]) / 1000.0
            else:
                attrs["from-to"] = np.array(args["at"]) / 1000.0
            if kind == "text":
                attrs["type"] = "TEXT"
            own = args.get("own", False)
            if own and not (args["tol"] == 10 and (seed + n) % 2):  # 0.01 is the hole's default: key or nothing
                attrs["collocation_distance"] = args["tol"] / 1000.0
            call[f"d{args['name']}"] = attrs                    # the sets of one call, in order
            desc.append(f"{label['act']}({kind}, {args['at']}" + (f", own tol {args['tol'] / 1000})" if own else ")"))
            if args.get("more"):
                continue                                        # the object is observable between calls only
            kwargs = {} if own else {"collocation_distance": args["tol"] / 1000.0}
            if args.get("pg"):
                kwargs["property_group"] = f"pg{args['pg']}"
            where = (f"{mode} table {tab + 1} set {n + 1}{' (on the copy)' if orig is not None else ''}: "
                     f"add_data({{{'; '.join(desc)}}}, {kwargs})")
            try:
                hole.add_data(call, **kwargs)
                outcome = "ok"
            except Exception as exc:  # pylint: disable=broad-except
                outcome = f"refused:{type(exc).__name__}: {exc}"
            call, desc = {}, []
            if outcome.split(":")[0] != label["out"].split(":")[0]:
                viol.append(_viol("log-add-" + ("raises:" + outcome.split(":")[1] if outcome != "ok" else "accepted"),
                                  f"{where}: outcome {outcome[:300]} expected {label['out']}", rcase))
                mismatch = True
                break
            diff = _compare(hole, state, postab, where + " live")
            if diff is None and orig is not None:
                diff = _compare(orig, state["frozen"], postab, where + " live, the ORIGINAL of the copy")
            if diff is None and path is not None:
                ws.close()
                ws = Workspace(path, mode="r+")
                hole = ws.get_entity("copy" if orig is not None else "hole")[0]
                diff = _compare(hole, state, postab, where + " re-opened")
                if diff is None and orig is not None:
                    orig = ws.get_entity("hole")[0]
                    diff = _compare(orig, state["frozen"], postab, where + " re-opened, the ORIGINAL of the copy")
            done += 1
            if diff is not None:
                viol.append(_viol(diff[0], diff[1], rcase))
                mismatch = True
                break
            for sig in _flag_findings(state, devs) - seen:
                seen.add(sig)
                viol.append(_viol(sig, f"{where}: the object agrees with the as-built model in a state where TLC "
                                       f"evaluates the property to false: vertexAtDepth {state['vertexAtDepth']} "
                                       f"lost {state['lost']} stray {state['stray']}", rcase))
    finally:
        try:
            ws.close()
        except Exception:  # pylint: disable=broad-except
            pass
        if path is not None and os.path.exists(path):
            os.remove(path)
    return {"viol": viol, "steps": done, "mismatch": mismatch}


def _dev_env(devs):
    return {f"C18_DEV_{d}": "1" for d in devs}


def _log_graph(cfg, devs, seed, max_len=8):
    res = run_tlc(AREA, "DrillholeLog", cfg, workers=1, heap=HEAP, env_extra=_dev_env(devs))
    if not res.ok:
        raise MachineryError(f"DrillholeLog/{cfg} violates {res.violated}:\n{res.raw_tail[-800:]}")
    pos = [obj for tag, _, obj in res.lines if tag == "POS"]
    if len(pos) != 1 or sorted(pos[0]["devs"]) != sorted(devs):
        raise MachineryError(f"DrillholeLog/{cfg}: POS export / deviation set mismatch {pos[0]['devs'] if pos else None}")
    g = build_graph(res.lines)
    init = graph.split_init(res.lines)
    paths, covered, unreachable = graph.path_cover(g.states, g.edges, init, max_len=max_len, rng=random.Random(seed))
    if unreachable or covered != len(g.edges):
        raise MachineryError(f"DrillholeLog/{cfg}: path cover incomplete ({covered}/{len(g.edges)})")
    return res, pos[0], g, paths


def _steps(g, p):
    steps = [(g.edges[i][2], g.states[g.edges[i][1]]) for i in p]
    while steps and steps[-1][0]["act"] != "Copy" and steps[-1][0]["args"].get("more"):   # never leave a call open
        steps.pop()
    return steps


def _items(pos, g, paths, seed, modes):
    n_tab = len(pos["tables"])
    return [(pos, n % n_tab, modes[(n // n_tab) % len(modes)], _steps(g, p), seed + n) for n, p in enumerate(paths)]


def _shapes(g, p):
    """shape classes of a history that the quick sample must contain"""
    lbl = [g.edges[i][2] for i in p]
    out = set()
    if len(lbl) == 3 and [(x["act"], x["args"] and x["args"]["more"]) for x in lbl] == \
            [("AddDepth", False), ("AddInterval", False), ("AddDepth", False)]:
        out.add("depth-interval-depth-calls")
    for n, i in enumerate(p):
        src, x = g.states[g.edges[i][0]], lbl[n]
        if x["act"] == "Copy":
            if any(y["act"] == "AddDepth" for y in lbl[:n]) and any(y["act"] == "AddDepth" for y in lbl[n + 1:]):
                out.add("depth-data-added-to-a-copy")
            continue
        a = x["args"]
        dst = g.states[g.edges[i][1]]
        if a.get("pg") and not a["more"] and dst["hasDepth"] and \
                (dst["verts"][:len(src["verts"])] != src["verts"] or (x["act"] == "AddDepth" and a["at"] != sorted(a["at"]))):
            out.add("property-group-call-with-re-sort")
        if a.get("own") and src["inCall"] and a["tol"] != lbl[n - 1]["args"]["tol"]:
            out.add("own-tolerances-differ-in-one-call")
        if x["act"] != "AddDepth" or not src["inCall"]:
            continue
        if lbl[n - 1]["act"] == "AddInterval" and src["hasDepth"]:
            out.add("interval-then-depth-in-one-call")
        known = [d if d >= 0 else 10 ** 7 for d in src["depth"]] if src["hasDepth"] else []
        if known != sorted(known) and {t[0] for t in a["at"]} & set(known):
            out.add("multi-set-call-reusing-depth-while-unsorted")
    return out


def _prioritised(g, paths, limit, seed):
    """(chosen paths, modes, counts): every shape class first (live object; seeded sub-sample when a class is
    larger than a third of the limit), the rest uniformly"""
    rng = random.Random(seed)
    by_shape = {}
    for n, p in enumerate(paths):
        for sh in _shapes(g, p):
            by_shape.setdefault(sh, []).append(n)
    if limit is None:
        return list(paths), None, {k: len(v) for k, v in by_shape.items()}
    chosen, modes = [], []
    taken = set()
    for sh in sorted(by_shape):
        idx = [n for n in by_shape[sh] if n not in taken]
        if len(idx) > limit // 3:
            idx = sorted(rng.sample(idx, limit // 3))
        for n in idx:
            taken.add(n)
            chosen.append(paths[n])
            modes.append("live" if sh == "depth-interval-depth-calls" or len(chosen) % 3 else "reopen1")
    rest = [n for n in range(len(paths)) if n not in taken]
    for k, n in enumerate(sorted(rng.sample(rest, max(0, min(len(rest), limit - len(chosen)))))):
        chosen.append(paths[n])
        modes.append(MODES[k % len(MODES)])
    return chosen, modes, {k: len(v) for k, v in by_shape.items()}


def _probe_one(cfg, candidates, seed):
    subsets = [tuple(c) for r in range(len(candidates) + 1) for c in itertools.combinations(candidates, r)]
    with ThreadPoolExecutor(max_workers=2) as pool:
        graphs = list(pool.map(lambda s: _log_graph(cfg, s, seed), subsets))
    scores = []
    for devs, (res, pos, g, paths) in zip(subsets, graphs):
        fired = set()
        for st in g.states.values():
            if not st["inCall"]:
                fired |= _flag_findings(st, devs)
        if fired != {DEV_SIG[d] for d in devs}:
            raise MachineryError(f"probe graph {cfg} for {devs}: flagged effects {sorted(fired)} (vacuous or unexpected)")
        out = pmap(_replay_log, _items(pos, g, paths, seed, ["live"]))
        scores.append((sum(1 for o in out if o["mismatch"]), len(devs), devs, len(paths)))
    scores.sort()
    return scores[0][2], {"/".join(s[2]) or "ideal": f"{s[0]} of {s[3]} probe paths disagree" for s in scores}


def _probe(seed):
    """Which named deviations does this implementation exhibit?  Each subset gives a small as-built
    graph; the subset whose graph the implementation follows without any mismatch is used for the
    main export (the empty subset = the ideal specification).  The text deviations and the call
    deviation are independent (text values / float values, one set / several sets per call) and are
    probed on two small graphs."""
    text, score_a = _probe_one("DrillholeLogProbe.cfg", TEXT_DEVS, seed)
    call, score_b = _probe_one("DrillholeLogProbeB.cfg", CALL_DEVS, seed)
    return tuple(text) + tuple(call), {"DrillholeLogProbe.cfg": score_a, "DrillholeLogProbeB.cfg": score_b}


LOG_CFG = {
    # cfg, number of paths replayed (None = all)
    "quick": [("DrillholeLogQuick.cfg", 800), ("DrillholeLogMulti.cfg", 1300), ("DrillholeLogOpts.cfg", 600),
              ("DrillholeLogCopy.cfg", None)],
    "thorough": [("DrillholeLogQuick.cfg", None), ("DrillholeLogMulti.cfg", None), ("DrillholeLogOpts.cfg", None),
                 ("DrillholeLogCopy.cfg", None), ("DrillholeLogDeep.cfg", 6000),
                 ("DrillholeLogDeepText.cfg", 6000), ("DrillholeLogMultiText.cfg", 6000)],
}
LOG_INV = {"quick": ["DrillholeLogQuickInv.cfg", "DrillholeLogMultiInv.cfg", "DrillholeLogOptsInv.cfg",
                     "DrillholeLogCopyInv.cfg"],
           "thorough": ["DrillholeLogQuickInv.cfg", "DrillholeLogMultiInv.cfg", "DrillholeLogOptsInv.cfg",
                        "DrillholeLogCopyInv.cfg", "DrillholeLogDeepInv.cfg",
                        "DrillholeLogDeepTextInv.cfg", "DrillholeLogMultiTextInv.cfg"]}
MODES = ["live", "reopen1", "live", "reopen1", "live", "reopen2"]
SHAPES = ("depth-interval-depth-calls", "interval-then-depth-in-one-call", "multi-set-call-reusing-depth-while-unsorted",
          "own-tolerances-differ-in-one-call", "property-group-call-with-re-sort", "depth-data-added-to-a-copy")


def _run_log(tier, seed):
    devs, probe_scores = _probe(seed)
    cov = {"deviations_exhibited": list(devs), "probe": probe_scores, "per_config": {}}
    viol, states, trans, replayed, steps = [], 0, 0, 0, 0
    sample = None
    exhaustive = True
    shapes_replayed = {}
    for cfg, limit in LOG_CFG[tier]:
        res, pos, g, paths = _log_graph(cfg, devs, seed)
        states += res.distinct
        trans += res.generated
        chosen, modes, shape_counts = _prioritised(g, paths, limit, seed)
        exhaustive = exhaustive and len(chosen) == len(paths)
        items = _items(pos, g, chosen, seed, MODES)
        if modes is not None:
            items = [(it[0], it[1], m, it[3], it[4]) for it, m in zip(items, modes)]
        for it, p in zip(items, chosen):
            for sh in _shapes(g, p):
                shapes_replayed[sh] = shapes_replayed.get(sh, 0) + (it[2] == "live")
        out = pmap(_replay_log, items)
        viol += [v for o in out for v in o["viol"]]
        replayed += len(items)
        steps += sum(o["steps"] for o in out)
        flagged = sum(1 for s in g.states.values() if not s["inCall"] and _flag_findings(s, devs))
        # vacuity: the graph must contain merges of collocated depths / intervals, unsorted arguments and
        # re-sorts that renumber existing cells
        merged = unsorted = renumbered = 0
        for src, dst, lbl in g.edges:
            if lbl["act"] == "Copy":
                continue
            a, b = g.states[src], g.states[dst]
            at = lbl["args"]["at"]
            if lbl["act"] == "AddDepth":
                merged += len(b["verts"]) - len(a["verts"]) < len(at)
            else:
                merged += len(b["cells"]) - len(a["cells"]) < len(at)
            unsorted += at != sorted(at)
            renumbered += bool(a["cells"]) and b["cells"][:len(a["cells"])] != a["cells"]
        if not (merged and (renumbered or "Opts" in cfg) and (unsorted or "DeepText" in cfg)):   # DeepText: one depth per set
            raise MachineryError(f"DrillholeLog/{cfg}: vacuous graph (merges {merged}, unsorted arguments {unsorted}, "
                                 f"cell renumberings {renumbered})")
        cov["per_config"][cfg] = {"states": res.distinct, "transitions": len(g.edges), "paths": len(paths),
                                  "paths_replayed": len(items), "tlc_wall_s": round(res.wall_s, 1),
                                  "states_flagged_by_tlc": flagged, "calls_merging_collocated": merged,
                                  "calls_with_unsorted_arguments": unsorted, "calls_renumbering_cells": renumbered,
                                  "paths_per_shape": shape_counts}
        if sample is None or "Multi" in cfg and "Multi" not in sample["cfg"]:
            it = items[len(items) // 3]
            sample = {"cfg": cfg, "table": it[1] + 1, "mode": it[2], "actions": [s[0] for s in it[3]],
                      "final_state": it[3][-1][1]}
    for sh in SHAPES:
        if not shapes_replayed.get(sh):
            raise MachineryError(f"no history of shape {sh} was replayed on a live object")
    cov["shapes_replayed_on_live_object"] = shapes_replayed
    return viol, cov, states, trans, replayed, steps, sample, exhaustive


# ------------------------------------------------------------------ entry points
DES_CFG = {"quick": [("DesurveyQuick.cfg", None, 150)],
           "thorough": [("DesurveyQuick.cfg", None, 300), ("DesurveyThorough2.cfg", None, 600),
                        ("DesurveyThorough3.cfg", None, 1200)]}


CONTROLS = [("Desurvey", "Desurvey_ZeroLegKeepsInDir.cfg", "BeyondFollowsLastLeg"),
            ("Desurvey", "Desurvey_StationsFromInDir_LimitsAgree.cfg", "LimitsAgree"),
            ("Desurvey", "Desurvey_StationsFromInDir_StepBounded.cfg", "StepBounded"),
            ("DesurveyCache", "DesurveyCache_SurveysKeepCache.cfg", "ReadIsCurrent"),
            ("DesurveyCache", "DesurveyCache_CollarKeepsCache.cfg", "ReadIsCurrent"),
            ("DrillholeLog", "DrillholeLog_SortSkipsText.cfg", "ValuesAttached"),
            ("DrillholeLog", "DrillholeLog_TextMatchTruncated.cfg", "ValuesAttached"),
            ("DrillholeLog", "DrillholeLog_MidCallDepthShort.cfg", "VertexAtDepth"),
            ("DrillholeLog", "DrillholeLog_SortKeepsCells.cfg", "CellsJoin"),
            ("DrillholeLog", "DrillholeLog_SortKeepsVertices.cfg", "VertexAtDepth")]


def _design_level(tier, conn):
    """Runs in a process of its own, beside the exports and replays: (a) the ideal DrillholeLog specification
    satisfies ArraysAligned, VertexAtDepth, CellsJoin, ValuesAttached, OriginalKept on the bounds of every exported
    graph; (b) negative controls: each named deviation violates the invariant that states its clause."""
    def one(job):
        try:
            if job[0] == "inv":
                res = run_tlc(AREA, "DrillholeLog", job[1], workers=2, heap=HEAP, keep_lines=False)
                return {"cfg": job[1], "error": None if res.ok else f"the ideal specification violates {res.violated}",
                        "states": res.distinct, "wall": round(res.wall_s, 1)}
            res = run_tlc(AREA, job[1], job[2], workers=2, heap=HEAP, keep_lines=False)
            return {"cfg": job[2], "error": None if job[3] in res.violated else
                    f"negative control: expected {job[3]} to be violated, got {res.violated}"}
        except Exception as exc:  # pylint: disable=broad-except
            return {"cfg": job[-2] if job[0] != "inv" else job[1], "error": f"{type(exc).__name__}: {exc}"[:1500]}
    jobs = [("inv", cfg) for cfg in LOG_INV[tier]] + [("nc",) + c for c in CONTROLS]
    with ThreadPoolExecutor(max_workers=3) as pool:
        conn.send(list(pool.map(one, jobs)))
    conn.close()


def _split(out):
    viol = []
    for r in out:
        for v in r or []:
            if "machinery" in v:
                raise MachineryError(v["machinery"])
            viol.append(v)
    return viol


def run(tier, seed):
    viol = []
    states = trans = replayed = 0
    per_cfg = {}
    samples = []
    ctx = mp.get_context("fork")
    recv, send = ctx.Pipe(duplex=False)
    design = ctx.Process(target=_design_level, args=(tier, send), daemon=True)   # forked before any thread exists
    design.start()
    send.close()
    # 1. desurvey over all tables
    n_cases = n_degenerate = 0
    for cfg, limit, n_file in DES_CFG[tier]:
        res, cases = funcheck.enumerate_cases(AREA, "Desurvey", cfg, workers=TLC_WORKERS, heap=HEAP)
        if 2 * len(cases) != res.distinct:
            raise MachineryError(f"Desurvey/{cfg}: {len(cases)} CASE lines for {res.distinct} states")
        states += res.distinct
        trans += res.generated
        chosen, _ = funcheck.sample(cases, limit, seed)
        items = _desurvey_items(chosen, seed, n_file)
        v, wall = funcheck.replay_all(_replay_desurvey, items)
        viol += _split([v])
        n_cases += len(cases)
        n_degenerate += sum(1 for c in chosen if c["pos"] != c["asbuilt"])
        replayed += len(items)
        per_cfg[cfg] = {"cases_enumerated_by_tlc": len(cases), "replays": len(items),
                        "tlc_wall_s": round(res.wall_s, 1), "replay_wall_s": round(wall, 1)}
        mid = chosen[len(chosen) // 2]
        samples.append({"cfg": cfg, "table": mid["table"], "collar": vec(mid["collar"]),
                        "pos_at_half_integer_depths": [vec(p) for p in mid["pos"]][:6]})
    if not n_degenerate:
        raise MachineryError("no table with a repeated final depth and differing directions was generated")
    # 2. setters vs cache
    cres, cout, n_paths, n_query, csample = _run_cache(tier, seed)
    viol += _split(cout)
    states += cres.distinct
    trans += cres.generated
    replayed += n_paths
    per_cfg[CACHE_CFG[tier]] = {"states": cres.distinct, "transitions": cres.generated, "paths": n_paths,
                                    "queries_compared": n_query}
    samples.append({"cfg": CACHE_CFG[tier], **csample})
    # 3. add_data histories
    lviol, lcov, lstates, ltrans, lreplayed, lsteps, lsample, exhaustive = _run_log(tier, seed)
    viol += lviol
    states += lstates
    trans += ltrans
    replayed += lreplayed
    per_cfg.update(lcov.pop("per_config"))
    samples.append(lsample)
    # 4. design-level results (ideal specification on the exported bounds, negative controls)
    try:
        results = recv.recv()
    except EOFError as exc:
        raise MachineryError("the design-level TLC runs died") from exc
    design.join()
    for r in results:
        if r["error"]:
            raise MachineryError(f"{r['cfg']}: {r['error']}")
        if "states" in r:
            per_cfg[r["cfg"]] = {"states": r["states"], "invariants": "hold", "tlc_wall_s": r["wall"]}
    controls = CONTROLS
    if replayed < 500:
        raise MachineryError("too few cases replayed")
    return {
        "level": "model_checking",
        "violations": viol,
        "coverage": {
            "states": states, "transitions": trans, "traces_validated_against_impl": replayed,
            "desurvey_tables_enumerated": n_cases, "desurvey_tables_with_observable_zero_leg": n_degenerate,
            "add_data_calls_compared": lsteps, "exhaustive": exhaustive, "samples": samples,
            "per_config": per_cfg, **lcov,
            "negative_controls": [f"{m}/{c} violates {i}" for m, c, i in controls],
            "position_tolerance": POS_TOL,
            "rule": "Desurvey.tla: TLC enumerates every survey table within the cfg, checks CollarAtZero, StepBounded, "
                    "LimitsAgree, LegAlongMean, UnitSpeedOnStraightLegs, BeyondFollowsLastLeg on the exact rational "
                    "path and prints it; Drillhole.desurvey is compared at every grid depth (shuffled queries, array "
                    "and list, created with / assigned surveys, plain and concatenated holes, live and re-opened). "
                    "DesurveyCache.tla: every sequence of setters and queries up to MaxSteps is replayed. DrillholeLog.tla: the "
                    "state graph of add_data histories is exported, a path cover is replayed and after every call "
                    "vertices (by position), DEPTH, cells, FROM/TO and every value array are compared with the state "
                    "TLC computed, live and after re-opening; VertexAtDepth, CellsJoin, ValuesAttached, ArraysAligned "
                    "are checked by TLC on the ideal specification and evaluated per state in the exported graph",
        },
        "assumptions": [
            "survey depths are integers 0..4, directions come from 14 unit vectors with rational components, "
            "collars from 3 points, query depths from a half-integer grid; arbitrary real azimuth/dip are not decided",
            "positions are compared with absolute tolerance 4e-5 (survey angles are stored as float32)",
            "'continues the last direction' is read as the direction of the last leg (mean of the last two stations)",
            "add_data: depths in {1, 1.004, 2, 3} (thorough also 2.5), at most 2 (3) calls of at most 2 depths / "
            "intervals, collocation distance 0.001 or 0.01, float and text values; depths of one call are not "
            "collocated with each other; text depth data never collocates with an existing depth (the code refuses it)",
            "add_data calls carry 1-3 data sets (one collocation distance per call); quick replays 1000 seeded paths of "
            "the 2-call graph and 1500 paths of the 3-set multi-call graph chosen by shape first (all depth->interval->"
            "depth histories on a live object, interval-then-depth in one call, multi-set calls re-using a depth while "
            "the known depths are unsorted); thorough replays both graphs fully and seeded samples of three deeper ones",
            "concatenated drillholes (DrillholeGroup, version 2.x) are covered for desurvey only; their add_data keeps "
            "no vertices or cells (C04)",
        ],
    }


def replay(doc):
    case = doc["case"]
    if case["kind"] == "desurvey":
        v = _split([_replay_desurvey((case["case"], case["mode"], case["seed"]))])
    elif case["kind"] == "cache":
        v = _split([_replay_cache((case["pos"], case["init"], [(s[0], s[1]) for s in case["steps"]], case["mode"]))])
    else:
        steps = [(s[0], s[1]) for s in case["steps"]]
        v = _replay_log((case["pos"], case["table"], case["mode"], steps, case["seed"]))["viol"]
    return {"violations": v, "coverage": {"replayed": 1}}
