"""C04 - concatenated drillhole storage keeps each hole's data intact and separate.
Spec: spec/concat/DrillholeConcat.tla ; implementation driver: harness/concat_impl.py ; comparison: harness/concat_check.py"""
from __future__ import annotations

import json
import os
import random
import re
import shutil
import subprocess
import sys
import tempfile
import time
from collections import Counter, deque

from .. import tlc
from ..concat_check import replay_path, table_deviation
from ..graph import path_cover
from ..pool import pmap
from ..tlc import MachineryError

SPEC_DIR = tlc.SPEC / "concat"
ALL_DEV = ["RenameKeepsLabel", "WsRemoveKeepsChild", "HoleRemovalKeepsObjectRows", "HoleRemovalKeepsGroupChild",
           "StalePgIdCache", "EmptyTableRaises", "TableByLabel",
           "CopySharesRecords", "PlainChildNotUnlinked", "UngroupedDataNotLoaded", "FailedCreateKeepsKey", "HoleRemovalKeepsEmptyPgRow", "CopyTypesPurged"]
# (cfg, format version, number of paths replayed: None = the complete path cover, n = seeded sample)
EXPORTS = {"quick": [("DrillholeConcatExportFlags.cfg", 21, None), ("DrillholeConcatExportRound3.cfg", 21, 350),
                     ("DrillholeConcatExportText.cfg", 21, 250),
                     ("DrillholeConcatExportQuick.cfg", 21, 450), ("DrillholeConcatExportDeep.cfg", 21, 250),
                     ("DrillholeConcatExportQuick20.cfg", 20, None)],
           "thorough": [("DrillholeConcatExportFlags.cfg", 21, None), ("DrillholeConcatExportRound3.cfg", 21, None),
                        ("DrillholeConcatExportText.cfg", 21, None),
                        ("DrillholeConcatExportQuick.cfg", 21, None), ("DrillholeConcatExportDeep.cfg", 21, None),
                        ("DrillholeConcatExportQuick20.cfg", 20, None), ("DrillholeConcatExportThorough20.cfg", 20, 2500),
                        ("DrillholeConcatExportThorough.cfg", 21, 5000), ("DrillholeConcatExportThorough5.cfg", 21, 4000)]}
IDEAL = {"quick": "DrillholeConcatIdealQuick.cfg", "thorough": "DrillholeConcatIdealThorough.cfg"}
SINGLE_NEG = {"RenameKeepsLabel": "ReadBackOK", "WsRemoveKeepsChild": "KeysMatchChildren",
              "HoleRemovalKeepsObjectRows": "RowsOwnedLive", "HoleRemovalKeepsGroupChild": "GroupChildrenLive",
              "StalePgIdCache": "PgCacheFresh", "EmptyTableRaises": "TableOK", "TableByLabel": "TableOK",
              "CopySharesRecords": "NeverBroken", "PlainChildNotUnlinked": "PlainChildClean",
              "UngroupedDataNotLoaded": "RowsOwnedLive", "FailedCreateKeepsKey": "OneRecordEach",
              "HoleRemovalKeepsEmptyPgRow": "RowsOwnedLive", "CopyTypesPurged": "CopiesReadable"}
NEGATIVE = [("DrillholeConcatAsBuilt.cfg", None)]
JENV = {"JAVA_TOOL_OPTIONS": "-Xss64m"}  # Populate composes ~10 operators: deep lazy evaluation


_BG = """
import json, sys
sys.path.insert(0, sys.argv[1])
from harness import tlc
try:
    r = tlc.run_tlc(tlc.SPEC / "concat", "DrillholeConcat", sys.argv[2], workers=int(sys.argv[3]), heap=sys.argv[4],
                    keep_lines=False, timeout=3000, env_extra={"JAVA_TOOL_OPTIONS": "-Xss64m"})
    print("RESULT " + json.dumps({"ok": r.ok, "violated": r.violated, "distinct": r.distinct, "generated": r.generated,
                                  "wall_s": r.wall_s, "tail": r.raw_tail[-1500:]}))
except Exception as exc:
    print("RESULT " + json.dumps({"error": str(exc)[-2000:]}))
"""


class _Bg:
    """A design-level TLC run in a separate process (no threads in the parent: the replay pool forks)."""

    def __init__(self, cfg, workers, heap="4g"):
        self.cfg = cfg
        self.proc = subprocess.Popen([sys.executable, "-c", _BG, str(tlc.VERIF), cfg, str(workers), heap],
                                     stdout=subprocess.PIPE, stderr=subprocess.DEVNULL, text=True)

    def result(self):
        out, _ = self.proc.communicate()
        line = [x for x in out.splitlines() if x.startswith("RESULT ")]
        if not line:
            raise MachineryError(f"background TLC run {self.cfg} produced no result")
        doc = json.loads(line[-1][7:])
        if "error" in doc:
            raise MachineryError(f"TLC on {self.cfg}: {doc['error']}")
        return doc


def _with_deviations(cfg_name, devs, workdir):
    """Copy the module and a cfg with the `Deviations = ...` line replaced into workdir."""
    text = (SPEC_DIR / cfg_name).read_text()
    line = "  Deviations = {" + ", ".join(f'"{d}"' for d in devs) + "}"
    text, n = re.subn(r"^\s*Deviations\s*=.*$", line, text, flags=re.M)
    if n != 1:
        raise MachineryError(f"{cfg_name}: no Deviations line")
    shutil.copy(SPEC_DIR / "DrillholeConcat.tla", os.path.join(workdir, "DrillholeConcat.tla"))
    with open(os.path.join(workdir, cfg_name), "w") as fh:
        fh.write(text)


def _export(cfg_name, devs, workdir):
    _with_deviations(cfg_name, devs, workdir)
    res = tlc.run_tlc(workdir, "DrillholeConcat", cfg_name, workers=1, heap="4g", timeout=3000, env_extra=JENV)  # 1 worker: BFS levels (MaxLevel) and line order are deterministic
    if not res.ok:
        raise MachineryError(f"TLC reports {res.violated} on export {cfg_name}\n{res.raw_tail[-1500:]}")
    g = tlc.build_graph(res.lines)
    init = [k for k, v in g.states.items() if not v["s"]["gch"] and not v["s"]["labels"] and all(h["st"] == "none" for h in v["s"]["hs"]) and v["s"].get("sess", "mixed") == "mixed" and v["s"].get("plain", "none") in ("none", "live")]
    if len(init) != 1:
        raise MachineryError(f"{cfg_name}: {len(init)} initial states")
    return res, g, init


def _items(g, init, paths, version):
    out = {}
    for s, d, lab in g.edges:
        if lab["act"] == "Reopen":
            out.setdefault(s, (d, lab))
    items = []
    for p in paths:
        steps = [{"edge": g.edges[i][2], "state": g.states[g.edges[i][1]]} for i in p]
        last = g.edges[p[-1]][1]
        tail = None
        if last in out and g.edges[p[-1]][2]["act"] != "Reopen" and not g.states[last]["s"]["broken"]:
            d, lab = out[last]
            tail = {"edge": lab, "state": g.states[d]}
        # refinement parameters of the scene that the specification does not distinguish: the payload kind comes
        # from the cfg (Kind), every second path gives the group a plain (non-concatenated) child as well
        items.append({"version": version, "kind": steps[0]["state"].get("kind", "float"), "plain_child": steps[0]["state"]["s"].get("plain", "none") != "none" or len(items) % 2 == 0,
                      "steps": steps, "tail": tail})
    return items


def _step_devs(lab, st):
    devs = set(lab.get("dev") or [])
    if not st["s"]["broken"]:
        known = st.get("devs")
        devs |= {d for d in (table_deviation(t, known) for t in st["tables"].values()) if d}
    return devs


def _witness_paths(g, init, devs):
    """For every deviation of `devs` a shortest path to the first step (transition + state reached) that exhibits it."""
    outs = {}
    for i, (s, _, _) in enumerate(g.edges):
        outs.setdefault(s, []).append(i)
    found = {}
    pred = {init[0]: None}
    dq = deque([init[0]])
    while dq:
        u = dq.popleft()
        for i in outs.get(u, []):
            _, v, lab = g.edges[i]
            new = (_step_devs(lab, g.states[v]) & devs) - set(found)
            if new:
                path = [i]
                w = u
                while pred[w] is not None:
                    path.append(pred[w])
                    w = g.edges[pred[w]][0]
                for d in new:
                    found[d] = path[::-1]
            if v not in pred:
                pred[v] = i
                dq.append(v)
    return found


def _pmap(fn, items):
    """pool.pmap runs a single item inside this process and removes the scratch directory it made the
    process-wide TMPDIR afterwards; later mkdtemp calls (run_tlc) would fail.  One item is run here instead."""
    items = list(items)
    out = [fn(x) for x in items] if len(items) < 2 else pmap(fn, items)
    for var in ("TMPDIR",):
        if os.environ.get(var) and not os.path.isdir(os.environ[var]):
            os.environ.pop(var)
    if tempfile.tempdir and not os.path.isdir(tempfile.tempdir):
        tempfile.tempdir = None
    return out


def _probe(work):
    """Which named deviations does the implementation show?  Witness paths of the probe graph are replayed;
    a mismatch at a step that exhibits deviations means those are not (all) present: they are switched off
    and the probe is repeated with the smaller set.  A mismatch at a step that exhibits no deviation is
    explained by no subset: it is returned as a violation `probe:unexplained:<action>`.
    Returns (deviations to export with, violations)."""
    # deviations recorded as *fixed* in known_findings.json are not assumed any more: should one come back, the ideal
    # behaviour is demanded and the regression is reported as a violation (it also keeps the probe to one round)
    from .. import findings
    fixed = {f["signature"].split(":", 1)[1] for f in findings.load()
             if f.get("property") == "C04" and f.get("status") == "fixed" and str(f.get("signature", "")).startswith("asbuilt:")}
    devs = set(ALL_DEV) - fixed
    viol = []
    for _ in range(len(ALL_DEV) + 1):
        res, g, init = _export("DrillholeConcatProbe.cfg", sorted(devs), work)
        wit = _witness_paths(g, init, devs)
        # a deviation without witness in this graph cannot be decided here: it stays switched on and the
        # main replay decides (a wrong guess shows up there as a mismatch, never as a crash)
        paths = sorted({tuple(p) for p in wit.values()})
        items = _items(g, init, [list(p) for p in paths], 21)
        for it in items:
            it["tail"] = None
        out = _pmap(replay_path, items)
        absent = set()
        viol = []
        for it, r in zip(items, out):
            k = r["mismatch_step"]
            if k is None:
                continue
            shown = _step_devs(it["steps"][k - 1]["edge"], it["steps"][k - 1]["state"]) & devs if k <= len(it["steps"]) else set()
            if shown:
                absent |= shown
            else:
                for v in r["violations"]:
                    act = it["steps"][min(k, len(it["steps"])) - 1]["edge"]["act"]
                    viol.append({"signature": f"probe:unexplained:{act}:{v['signature']}", "summary": v["summary"], "case": v["case"]})
        if not absent:
            break
        devs -= absent
    return devs, viol


def _replay_graph(g, init, version, seed, limit):
    rng = random.Random(seed)
    paths, covered, unreachable = path_cover(g.states, g.edges, init, max_len=14)
    if unreachable:
        raise MachineryError(f"{len(unreachable)} exported transitions are unreachable from the initial state")
    full = True
    if limit is not None and len(paths) > limit:
        full = False
        idx = sorted(rng.sample(range(len(paths)), limit))
        paths = [paths[i] for i in idx]
    items = _items(g, init, paths, version)
    t0 = time.time()
    res = _pmap(replay_path, items)
    return items, res, full, time.time() - t0


def run(tier, seed):
    t_all = time.time()
    work = tempfile.mkdtemp(prefix="c04_tlc_")
    viol, samples, per_cfg = [], [], {}
    find_count = Counter()
    find_text = {}
    states = trans = replayed_paths = replayed_steps = 0
    exhaustive = True
    devs_used = None
    acts_seen = Counter()
    procs = int(os.environ.get("VERIF_PROCS", "16"))
    bg = []
    try:
        # (1) design level (separate process): the ideal specification satisfies the property
        f_ideal = _Bg(IDEAL[tier], max(2, procs // 4))
        # (2) negative controls: the as-built deviations violate the invariants
        f_neg = _Bg("DrillholeConcatAsBuilt.cfg", 2, "2g")
        f_ideal3 = _Bg("DrillholeConcatIdealRound3.cfg", 2, "2g")
        bg += [f_ideal, f_neg, f_ideal3]
        f_single = {}
        if tier == "thorough":
            for d in SINGLE_NEG:
                f_single[d] = _Bg(f"DrillholeConcatNeg_{d}.cfg", 1, "2g")
                bg.append(f_single[d])
        # (3) conformance: export the graph for the deviations the implementation shows, replay a path cover
        devs_used, probe_viol = _probe(work)
        viol += probe_viol
        for cfg, version, limit in EXPORTS[tier]:
            res, g, init = _export(cfg, sorted(devs_used), work)
            items, out, full, wall = _replay_graph(g, init, version, seed, limit)
            exhaustive = exhaustive and full
            states += res.distinct
            trans += res.generated
            replayed_paths += len(items)
            for it, r in zip(items, out):
                replayed_steps += r["steps"]
                viol += r["violations"]
                for sig, text in r["findings"]:
                    find_count[sig] += 1
                    find_text.setdefault(sig, (text, it))
                for stp in it["steps"]:
                    acts_seen[stp["edge"]["act"]] += 1
            per_cfg[cfg] = {"states": res.distinct, "transitions": res.generated, "edges": len(g.edges),
                            "paths": len(items), "tlc_wall_s": round(res.wall_s, 1), "replay_wall_s": round(wall, 1)}
            mid = items[len(items) // 2]
            samples.append({"cfg": cfg, "path": [[s["edge"]["act"], s["edge"]["args"], s["edge"]["out"]] for s in mid["steps"]]})
        ideal = f_ideal.result()
        if not ideal["ok"]:
            raise MachineryError(f"the ideal specification violates {ideal['violated']}\n{ideal['tail']}")
        ideal3 = f_ideal3.result()
        if not ideal3["ok"]:
            raise MachineryError(f"the ideal specification (round-3 actions) violates {ideal3['violated']}\n{ideal3['tail']}")
        neg = f_neg.result()
        if neg["ok"]:
            raise MachineryError("negative control: the as-built deviations violate no invariant")
        singles = {}
        for d, f in f_single.items():
            r = f.result()
            if SINGLE_NEG[d] not in r["violated"]:
                raise MachineryError(f"negative control {d}: expected {SINGLE_NEG[d]} to be violated, got {r['violated']}")
            singles[d] = SINGLE_NEG[d]
    finally:
        for b in bg:
            if b.proc.poll() is None:
                b.proc.kill()
        shutil.rmtree(work, ignore_errors=True)
    need = {"AddHole", "AddDepthData", "AddIntervalData", "SetValues", "Rename", "RemoveDataViaParent", "RemoveDataViaWorkspace",
            "RemoveHoleViaParent", "RemoveHoleViaWorkspace", "RemovePropertyGroup", "AddValuesToTable", "Reopen", "CopyGroup",
            "Protect", "SaveHoleAgain", "SetPublic", "RemovePlainChild", "CopyEdit", "CopyPurge", "AddObjectData", "AddBadData", "ReopenRemoveHole", "ReopenRemoveGroup", "RemoveGroup"}
    if need - set(acts_seen):
        raise MachineryError(f"actions never replayed: {sorted(need - set(acts_seen))}")
    if replayed_steps < 1000:
        raise MachineryError("too few steps replayed")
    for sig, n in sorted(find_count.items()):
        text, it = find_text[sig]
        viol.append({"signature": sig, "summary": f"{text} [seen {n}x]",
                     "case": {"version": it["version"], "kind": it.get("kind", "float"), "plain_child": it.get("plain_child", False),
                              "steps": it["steps"], "tail": it["tail"]}})
    return {
        "level": "model_checking",
        "violations": viol,
        "coverage": {
            "states": states, "transitions": trans, "traces_validated_against_impl": replayed_paths,
            "steps_replayed": replayed_steps, "exhaustive": exhaustive, "samples": samples,
            "per_config": per_cfg, "actions_replayed": dict(acts_seen),
            "ideal_spec": {"cfg": IDEAL[tier], "states": ideal["distinct"], "transitions": ideal["generated"], "wall_s": round(ideal["wall_s"], 1)},
            "negative_control": f"DrillholeConcatAsBuilt.cfg violates {neg['violated']}",
            "negative_controls_single_deviation": singles,
            "deviations_in_exported_graph": sorted(devs_used or []),
            "deviations_reobserved": {k: v for k, v in sorted(find_count.items())},
            "wall_s": round(time.time() - t_all, 1),
            "rule": "TLC checks Tiled/NoDuplicateOwner/RowsOwnedLive/OneRecordEach/KeysMatchChildren/PgsConsistent/ReadBackOK/"
                    "TableOK/NeverBroken and the action property Isolation on the ideal specification; the state graph of the "
                    "specification with the deviations the implementation shows is exported, a path cover of all its transitions "
                    "is replayed on a real DrillholeGroup in a real file and after every action outcome, per-hole API reads, raw "
                    "Index/Data datasets (tiling, per-owner content), object ids, depth_table and (after re-open) the attribute "
                    "records are compared with the state TLC computed",
        },
        "assumptions": [
            "bounds: see spec/concat/*.cfg (2-3 holes, names a/b, depth and interval tables, lengths 0..3, 3-5 actions from the empty group or 2-3 actions after Populate (3 holes, 5 data sets), formats 2.0 and 2.1)",
            "larger graphs are replayed through a seeded sample of their transition cover (coverage.per_config.paths / exhaustive)",
            "one depth table and one interval table per hole (default group names depth_0 / Interval_0); DEPTH/FROM/TO are not rewritten",
            "after an as-built deviation made a hole inconsistent only re-open, removal of that hole and actions on other holes are explored",
        ],
    }


def run_subset(exports, seed):
    """Conformance part only (probe + export + replay) for a list of (cfg, version, limit): used by the checks of C05, C11
    and C12 for the concatenated half of those properties (allow_delete refusal, attribute-only sessions flushed at close,
    copies of a drillhole group). Returns (violations incl. re-observed deviations, coverage dict)."""
    work = tempfile.mkdtemp(prefix="c04_tlc_")
    viol, per_cfg = [], {}
    find_count, find_text = Counter(), {}
    states = trans = paths = steps = 0
    try:
        devs_used, probe_viol = _probe(work)
        viol += probe_viol
        for cfg, version, limit in exports:
            res, g, init = _export(cfg, sorted(devs_used), work)
            items, out, full, wall = _replay_graph(g, init, version, seed, limit)
            states += res.distinct
            trans += res.generated
            paths += len(items)
            for it, r in zip(items, out):
                steps += r["steps"]
                viol += r["violations"]
                for sig, text in r["findings"]:
                    find_count[sig] += 1
                    find_text.setdefault(sig, (text, it))
            per_cfg[cfg] = {"states": res.distinct, "transitions": res.generated, "paths": len(items),
                            "replay_wall_s": round(wall, 1), "complete_cover": full}
    finally:
        shutil.rmtree(work, ignore_errors=True)
    for sig, n in sorted(find_count.items()):
        text, it = find_text[sig]
        viol.append({"signature": sig, "summary": f"{text} [seen {n}x]",
                     "case": {"version": it["version"], "kind": it.get("kind", "float"), "plain_child": it.get("plain_child", False),
                              "steps": it["steps"], "tail": it["tail"]}})
    return viol, {"states": states, "transitions": trans, "paths": paths, "steps": steps, "per_config": per_cfg}


def replay(doc):
    r = replay_path(doc["case"])
    viol = list(r["violations"])
    for sig, text in r["findings"]:
        if not any(v["signature"] == sig for v in viol):
            viol.append({"signature": sig, "summary": text, "case": doc["case"]})
    return {"violations": viol, "coverage": {"replayed": 1, "steps": r["steps"]}}
