"""C09 - decided by spec/core/Geoh5Core.tla (TLC) + replay of the exported state graph (harness/core_replay.py)."""
from ..core_check import make

run, replay = make("C09", ["C09_quick.cfg", "C09by_quick.cfg", "C09ty_quick.cfg", "C12ro_quick.cfg", "C12xd_quick.cfg"], ["C09_thorough.cfg", ("Sim_all.cfg", {"num": 150, "depth": 30})],
                   "per-node digests (attributes+datasets+property groups, child links, type nodes, header) before and after every replayed action must differ only inside the action's footprint computed by the specification", neg=None,
                   concat=[("DrillholeConcatExportFlags.cfg", 21, None)])
