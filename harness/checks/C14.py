"""C14 - ui.json files round-trip.  Spec: spec/uijson/UiJsonRoundTrip.tla

TLC explores the life of one InputFile (Load, SetValue, Write, Read, Demote, Promote) for every ui.json
dictionary the configuration's catalogue can assemble from the template forms, checks the C14 invariants
on the specification (Ideal*.cfg: Deviations = {} => NoViolation; Neg*.cfg: each named deviation alone
breaks NoViolation) and exports the state graph of the *as built* specification.  A path cover of that
graph is replayed through the real geoh5py.ui_json.InputFile on a real workspace file; after every action
the outcome (ok / refused), `InputFile.data`, the members of `InputFile.ui_json` (value, property, enabled,
isValue, optional) and, after Write, the JSON text on disk are compared with the state TLC printed.

Verdicts:
  * the implementation differs from the state TLC printed           -> `mismatch:<action>:<what>` (always new)
  * the implementation equals the state TLC printed and that state carries Viol entries (the C14
    invariants RoundTripData / RoundTripEnabled / ReadRefused / InStep are broken there, attributed by the
    spec to one named as-built deviation)                            -> the deviation's own signature
All expected values come from the lines TLC printed; tokens are mapped to concrete Python values here.
"""
from __future__ import annotations

import json
import math
import os
import random
import time
import uuid as uuidlib
from collections import Counter
from pathlib import Path

from .. import graph as graphmod
from .. import tlc
from ..pool import pmap, scratch
from ..tlc import MachineryError

SPEC_DIR = "uijson"
MODULE = "UiJsonRoundTrip"
KEEP_PER_SIGNATURE = 2
TLC_WORKERS = max(2, min(8, int(os.environ.get("VERIF_PROCS", "16")) // 2))
MAX_PATH_LEN = 12

# (cfg, max number of paths replayed (None = whole cover))
CFG = {
    "quick": [("RtCrossQuick.cfg", 1600), ("RtSingleSet.cfg", 1300), ("RtPairsQuick.cfg", 1900),
              ("RtOptQuick.cfg", 250), ("RtEditQuick.cfg", 250)],
    "thorough": [("RtCrossSet.cfg", 14000), ("RtSingleSet.cfg", None), ("RtPairs.cfg", 13000),
                 ("RtPairsDomain.cfg", 12000), ("RtTriples.cfg", 6000), ("RtOptSet.cfg", 6000),
                 ("RtEditSet.cfg", 5000)],
}
IDEAL = {"quick": ["RtIdealSingleSet.cfg", "RtIdealPairsQuick.cfg", "RtIdealOptQuick.cfg", "RtIdealEditQuick.cfg"],
         "thorough": ["RtIdealCrossSet.cfg", "RtIdealSingleSet.cfg", "RtIdealPairs.cfg", "RtIdealPairsDomain.cfg",
                      "RtIdealTriples.cfg", "RtIdealOptSet.cfg", "RtIdealEditSet.cfg"]}
# deviation alone => NoViolation must fail (negative controls, vacuity of the invariants)
NEGATIVE = {
    "quick": ["EmptyStrAsNone", "InfTextAsFloat", "UuidTextAsId", "NoneMemberAsText", "IsValueFlipOnNone",
              "FileFormRejectsWorkspace", "GroupPropagation"],
}
NEGATIVE["thorough"] = NEGATIVE["quick"]
FINDING_SIGNATURES = {
    "str-empty-read-as-none": "EmptyStrAsNone",
    "str-inf-read-as-float": "InfTextAsFloat",
    "str-uuid-read-as-identifier": "UuidTextAsId",
    "none-member-written-as-text": "NoneMemberAsText",
    "datavalue-isvalue-flip-on-none": "IsValueFlipOnNone",
    "geoh5-path-in-file-form-refused": "FileFormRejectsWorkspace",
    "group-enabled-propagation": "GroupPropagation",
}

# ------------------------------------------------------------------ fixture workspace (one per worker scratch dir)
_FIX = {}

INTS = [7, 0, -1, 2 ** 31, 2 ** 53 + 1, -(2 ** 63), 2 ** 64 - 1]
INTS2 = [-3, 1, 2 ** 40, -(2 ** 31) - 1]
FLOATS = [2.5, 0.1, 1e308, 5e-324, -0.0, 1e-7, 123456789.12345679, -1.7976931348623157e308, 1 / 3]
FLOATS2 = [-0.75, 1e-300, 3.0, 2.2250738585072014e-308, 1e22]
STRS = ["abc", "héllo wörld", 'q"uo\\te', " lead trail ", "1e5", "nan", "None", "null", "true", "[1, 2]",
        "infinity", "Inf", "x.geoh5.bak", "{not-a-uuid}", "漢字", "a\nb"]
STRS2 = ["x y", "-inf ", "0", "False", "geoh5", "ß"]


def fixture(big=False):
    """Real workspace file in this process' scratch dir: Points P with data a, b, property group pg, ContainerGroup G,
    DrillholeGroup DHG; the big one has two more Points objects Q, R with one data and one property group each
    (pg2, pg3) - it costs twice as much to open and is used by the paths that mention a property group and by
    every tenth other path."""
    base = scratch()
    key = (base, big)
    fx = _FIX.get(key)
    if fx is not None and os.path.exists(fx["path"]):
        return fx
    import numpy as np
    from geoh5py import Workspace
    from geoh5py.groups import ContainerGroup, DrillholeGroup
    from geoh5py.objects import Points
    # neither the workspace nor the ui.json files live in the current directory (= base)
    os.makedirs(os.path.join(base, "ws"), exist_ok=True)
    os.makedirs(os.path.join(base, "out"), exist_ok=True)
    path = os.path.join(base, "ws", "c14_fixture_big.geoh5" if big else "c14_fixture.geoh5")
    if os.path.exists(path):
        os.remove(path)
    ws = Workspace.create(path)
    grp = ContainerGroup.create(ws, name="G")
    dhg = DrillholeGroup.create(ws, name="DHG")
    pts = Points.create(ws, vertices=np.arange(12.0).reshape(4, 3), name="P")
    da, db = pts.add_data({"a": {"values": np.arange(4.0)}, "b": {"values": np.arange(4.0) + 1}})
    pgr = pts.add_data_to_group([da, db], "pg")
    pgr.property_group_type = "Multi-element"
    ents = {"obj": pts, "data": da, "data2": db, "pg": pgr, "grp": grp, "dh": dhg}
    if big:
        for tok, name in (("pg2", "Q"), ("pg3", "R")):
            other = Points.create(ws, vertices=np.zeros((2, 3)), name=name)
            dat = other.add_data({"c" + name: {"values": np.zeros(2)}})
            ents[tok] = other.add_data_to_group([dat], tok)
            ents[tok].property_group_type = "Multi-element"
    uids = {k: v.uid for k, v in ents.items()}
    ws.close()
    fx = {"path": path, "ents": ents, "uids": uids, "name": os.path.basename(path), "edited": False,
          "names": {k: v.name for k, v in ents.items()}}
    for stale in [k for k in _FIX if k[0] != base]:
        del _FIX[stale]
    _FIX[key] = fx
    return fx


EDITED = " (edited)"


def edit_project(fx, edited):
    """The project file is edited through another handle: every object, group and data is renamed (property group
    names are not persisted by geoh5py, they are left alone)."""
    from geoh5py import Workspace
    if fx["edited"] == edited:
        return
    with Workspace(fx["path"], mode="r+") as ws:
        for tok, uid in fx["uids"].items():
            if tok.startswith("pg"):
                continue
            ent = ws.get_entity(uid)[0]
            ent.name = fx["names"][tok] + (EDITED if edited else "")
    fx["edited"] = edited


# ------------------------------------------------------------------ tokens -> concrete Python values
class Reps:
    """Representatives of the value classes, drawn per path from the seed (boundaries always reachable)."""

    def __init__(self, rng, plain=False):
        pick = (lambda xs: xs[0]) if plain else rng.choice
        self.int, self.int2 = pick(INTS), pick(INTS2)
        self.float, self.float2 = pick(FLOATS), pick(FLOATS2)
        self.str, self.str2 = pick(STRS), pick(STRS2)
        self.unk = uuidlib.UUID(int=rng.getrandbits(128), version=4)
        self.brace = True if plain else rng.random() < 0.7

    def doc(self):
        return {"int": self.int, "int2": self.int2, "float": repr(self.float), "float2": repr(self.float2),
                "str": self.str, "str2": self.str2, "unk": str(self.unk), "brace": self.brace}

    @staticmethod
    def from_doc(doc):
        r = Reps(random.Random(0), plain=True)
        r.int, r.int2, r.float, r.float2 = doc["int"], doc["int2"], float(doc["float"]), float(doc["float2"])
        r.str, r.str2, r.unk, r.brace = doc["str"], doc["str2"], uuidlib.UUID(doc["unk"]), doc["brace"]
        return r


def _str_for(kind, second, reps):
    if kind in ("choice", "multichoice"):
        return "Option B" if second else "Option A"
    if kind == "file":
        return "other.con" if second else "model.chg"
    if kind == "dhgroupdata":
        return "b" if second else "a"
    return reps.str2 if second else reps.str


def conc_tok(tok, kind, reps, fx):
    """Concrete in-memory Python value of one token."""
    cls, ent = tok["c"], tok["x"]
    if cls in ("None",):
        return None
    if cls in ("NoneText", "EmptyStr"):
        return ""
    if cls == "True":
        return True
    if cls == "False":
        return False
    if cls == "Int":
        return reps.int
    if cls == "Int2":
        return reps.int2
    if cls == "Float":
        return reps.float
    if cls == "Float2":
        return reps.float2
    if cls == "PInf":
        return math.inf
    if cls == "NInf":
        return -math.inf
    if cls in ("InfText", "StrInf"):
        return "inf"
    if cls in ("NInfText", "StrNInf"):
        return "-inf"
    if cls == "Str":
        return _str_for(kind, False, reps)
    if cls == "Str2":
        return _str_for(kind, True, reps)
    if cls == "StrUuid":
        return "{" + str(reps.unk) + "}" if reps.brace else str(reps.unk)
    if cls == "StrG5":
        return "notes.geoh5"
    if cls == "WsPath":
        return fx["path"]
    if cls in ("IdText", "Id", "Ent"):
        uid = reps.unk if ent == "unk" else fx["uids"][ent]
        if cls == "IdText":
            return "{" + str(uid) + "}" if reps.brace else str(uid)
        if cls == "Id":
            return uid
        return fx["ents"][ent]
    raise MachineryError(f"token {tok} has no in-memory value")


def conc(val, kind, reps, fx):
    elems = [conc_tok(t, kind, reps, fx) for t in val["e"]]
    return elems if val["l"] else elems[0]


def _same_float(a, b):
    return type(b) is float and (a == b and math.copysign(1, a) == math.copysign(1, b))


def same_tok(tok, got, kind, reps, fx, on_disk=False):
    """Is `got` the value the token stands for (exact type, exact number, entity by uid, workspace by path)?"""
    cls, ent = tok["c"], tok["x"]
    if cls == "None":
        return got is None
    if cls in ("True", "False"):
        return got is (cls == "True")
    if cls in ("Int", "Int2"):
        return type(got) is int and got == conc_tok(tok, kind, reps, fx)
    if cls in ("Float", "Float2", "PInf", "NInf"):
        return _same_float(conc_tok(tok, kind, reps, fx), got)
    if cls in ("NoneText", "EmptyStr", "InfText", "StrInf", "NInfText", "StrNInf", "Str", "Str2", "StrG5"):
        return type(got) is str and got == conc_tok(tok, kind, reps, fx)
    if cls == "StrUuid":
        if on_disk:   # only the identifier is demanded, not its layout
            return type(got) is str and _as_uuid(got) == reps.unk
        return type(got) is str and got == conc_tok(tok, kind, reps, fx)
    if cls == "WsPath":
        return isinstance(got, str) and os.path.realpath(got) == os.path.realpath(fx["path"])
    if cls in ("Ws", "WsNew"):
        from geoh5py import Workspace
        want = fx["path"] if cls == "Ws" else "notes.geoh5"
        return isinstance(got, Workspace) and not hasattr(got.h5file, "getvalue") and \
            os.path.realpath(str(got.h5file)) == os.path.realpath(want)
    uid = reps.unk if ent == "unk" else fx["uids"][ent]
    if cls == "IdText":      # the identifier is demanded, not the layout of its text (braces, case)
        return type(got) is str and _as_uuid(got) == uid
    if cls == "Id":
        return isinstance(got, uuidlib.UUID) and got == uid
    if cls in ("Ent", "EntB"):   # EntB = the entity of the edited project
        name = fx["names"][ent] + (EDITED if cls == "EntB" and not ent.startswith("pg") else "")
        return not isinstance(got, (uuidlib.UUID, str)) and getattr(got, "uid", None) == uid and \
            type(got).__name__ == type(fx["ents"][ent]).__name__ and getattr(got, "name", None) == name
    raise MachineryError(f"token {tok} cannot be compared")


def _as_uuid(text):
    try:
        return uuidlib.UUID(text)
    except ValueError:
        return None


def same(val, got, kind, reps, fx, on_disk=False):
    if val["l"]:
        return isinstance(got, list) and len(got) == len(val["e"]) and \
            all(same_tok(t, g, kind, reps, fx, on_disk) for t, g in zip(val["e"], got))
    return not isinstance(got, list) and same_tok(val["e"][0], got, kind, reps, fx, on_disk)


def show(value):
    if isinstance(value, list):
        return [show(v) for v in value]
    if hasattr(value, "uid"):
        return f"<{type(value).__name__} {value.uid}>"
    if hasattr(value, "h5file"):
        return f"<Workspace {value.h5file}>"
    return repr(value)


# ------------------------------------------------------------------ raw forms -> ui.json dictionary
def build_form(form, reps, fx):
    from geoh5py.ui_json import templates
    kind = form["kind"]
    value = conc(form["value"], kind, reps, fx)
    opt = None
    if form["opt"] == "T":
        opt = "enabled" if form["en"] == "T" else "disabled"
    parent = f"p{form['parent']}" if form["parent"] else ""
    if kind == "plain":
        return value
    if kind == "bool":
        out = templates.bool_parameter(value=value)
        if opt:
            out.update(templates.optional_parameter(opt))
    elif kind == "integer":
        out = templates.integer_parameter(value=value, optional=opt)
    elif kind == "float":
        out = templates.float_parameter(value=value, optional=opt)
    elif kind == "string":
        out = templates.string_parameter(value=value, optional=opt)
    elif kind in ("choice", "multichoice"):
        out = templates.choice_string_parameter(value=value, optional=opt, multi_select=kind == "multichoice")
    elif kind == "file":
        out = templates.file_parameter(value=value, optional=opt, file_description=("Chargeability", "Conductivity"),
                                       file_type=("chg", "con"))
    elif kind == "object":
        out = templates.object_parameter(value=value, optional=opt, multi_select=form["value"]["l"])
    elif kind == "data":
        is_pg = any(t["x"].startswith("pg") for t in form["value"]["e"])
        out = templates.data_parameter(value=value, optional=opt, parent=parent,
                                       data_group_type="Multi-element" if is_pg else None)
    elif kind == "datavalue":
        out = templates.data_value_parameter(value=value, optional=opt, parent=parent, is_value=form["isv"] == "T",
                                             prop=conc(form["prop"], kind, reps, fx))
    elif kind == "group":
        out = templates.group_parameter(value=value, optional=opt)
    elif kind == "dhgroupdata":
        out = templates.drillhole_group_data(value=value, optional=opt, group_value=fx["uids"]["dh"])
    elif kind == "range":
        out = templates.range_label_template(value=value, optional=opt, parent=parent, property_=fx["uids"]["data"])
    else:
        raise MachineryError(f"unknown form kind {kind}")
    # the members the specification tracks are forced to the specified combination (they are what the templates
    # produce on the pinned tree; "arbitrary member combinations" stay valid input if a template changes)
    for member, key in MEMBERS:
        if form[member] == "absent":
            out.pop(key, None)
        else:
            out[key] = FLAG[form[member]]
    if form["grp"] != "none":
        out["group"] = form["grp"]
    if form["gopt"] == "T":
        out["groupOptional"] = True
    if form["dep"]:
        out["dependency"] = f"p{form['dep']}"
        out["dependencyType"] = form["dept"]
    return out


def build_ui_json(raw, reps, fx):
    from copy import deepcopy
    from geoh5py.ui_json.constants import default_ui_json
    ui_json = deepcopy(default_ui_json)
    ui_json["geoh5"] = fx["path"]
    for k, form in enumerate(raw, 1):
        ui_json[f"p{k}"] = build_form(form, reps, fx)
    return ui_json


# ------------------------------------------------------------------ comparison of an InputFile with a specified state
MEMBERS = (("opt", "optional"), ("en", "enabled"), ("isv", "isValue"))
FLAG = {"T": True, "F": False, "None": None, "Text": ""}


def compare_forms(spec_forms, ui_json, reps, fx, on_disk=False):
    diffs = []
    for k, form in enumerate(spec_forms, 1):
        name, kind = f"p{k}", form["kind"]
        got = ui_json.get(name, KeyError)
        if kind == "plain":
            if not same(form["value"], got, kind, reps, fx, on_disk):
                diffs.append(f"{name}: {show(got)} expected {form['value']}")
            continue
        if not isinstance(got, dict):
            diffs.append(f"{name}: not a form: {show(got)}")
            continue
        if not same(form["value"], got.get("value", KeyError), kind, reps, fx, on_disk):
            diffs.append(f"{name}.value: {show(got.get('value', KeyError))} expected {form['value']}")
        if form["prop"]["e"][0]["c"] != "Absent" and \
                not same(form["prop"], got.get("property", KeyError), kind, reps, fx, on_disk):
            diffs.append(f"{name}.property: {show(got.get('property', KeyError))} expected {form['prop']}")
        for member, key in MEMBERS:
            want = form[member]
            if want == "absent":
                if key in got:
                    diffs.append(f"{name}.{key}: present ({got[key]!r}) expected absent")
            elif key not in got or got[key] is not FLAG[want] and got[key] != FLAG[want] or \
                    type(got[key]) is not type(FLAG[want]):
                diffs.append(f"{name}.{key}: {got.get(key, KeyError)!r} expected {FLAG[want]!r}")
    return diffs


def compare_data(spec_data, header, data, reps, fx, kinds):
    diffs = []
    if not isinstance(data, dict):
        return [f"data is {type(data).__name__}"]
    for k, val in enumerate(spec_data, 1):
        name = f"p{k}"
        if name not in data or not same(val, data[name], kinds[k - 1], reps, fx):
            diffs.append(f"data[{name}]: {show(data.get(name, KeyError))} expected {val}")
    for name, val in header.items():
        if name == "title":
            ok = data.get(name) == "Custom UI"
        else:
            ok = name in data and same(val, data[name], "plain", reps, fx)
        if not ok:
            diffs.append(f"data[{name}]: {show(data.get(name, KeyError))} expected {val}")
    extra = set(data) - set(header) - {f"p{k}" for k in range(1, len(spec_data) + 1)}
    if extra:
        diffs.append(f"unexpected keys in data: {sorted(extra)}")
    return diffs


def compare_obs(spec_obs, got, reps, fx, kinds):
    diffs = []
    for k, val in enumerate(spec_obs, 1):
        name = f"p{k}"
        if name not in got or not same(val, got[name], kinds[k - 1], reps, fx):
            diffs.append(f"{name}: {show(got.get(name, KeyError))} expected {val}")
    return diffs


# ------------------------------------------------------------------ replay of one path
def _replay(item):
    """item = {"cfg", "init": state json, "steps": [{"last": .., "dst": state json}], "reps": doc, "id"}"""
    import warnings
    warnings.simplefilter("ignore")
    from geoh5py.shared.utils import dict_mapper, entity2uuid, fetch_active_workspace
    from geoh5py.ui_json.input_file import InputFile
    fx = fixture(big=item.get("big", False))
    reps = Reps.from_doc(item["reps"])
    init = item["init"]
    raw, validate = init["raw"], init["validate"]
    options = {} if init.get("upden", True) else {"validation_options": {"update_enabled": False}}
    kinds = [f["kind"] for f in raw]
    header = item["header"]
    viol = []
    seen = set()

    def bad(sig, msg, upto):
        if sig in seen:
            return
        seen.add(sig)
        case = dict(item)
        case["steps"] = item["steps"][:upto + 1]
        viol.append({"signature": sig, "summary": msg, "case": case})

    edit_project(fx, False)
    for stale in ("notes.geoh5", fx["name"]):
        if os.path.exists(stale):
            os.remove(stale)
    ui_json = build_ui_json(raw, reps, fx)
    infile = None
    nfile = 0
    path = None
    for n, step in enumerate(item["steps"]):
        last, dst = step["last"], step["dst"]
        act = last["act"]
        outcome, err, obs, disk = "ok", None, None, None
        try:
            if act == "Load":
                new = InputFile(ui_json=ui_json, validate=validate, **{k: dict(v) for k, v in options.items()})
                _ = new.data
                infile = new
            elif act == "SetValue":
                # validators of data parameters read the workspace: the caller keeps it open, as the data setter does
                with fetch_active_workspace(infile.geoh5):
                    infile.set_data_value(f"p{last['k']}", conc(last["v"], kinds[last["k"] - 1], reps, fx))
            elif act == "Write":
                nfile += 1
                path = infile.write_ui_json(f"c14_{nfile}.ui.json", os.path.join(scratch(), "out"))
                with open(path, encoding="utf-8") as handle:
                    text = handle.read()
                disk = json.loads(text, parse_constant=lambda name: f"<non-standard JSON constant {name}>")
            elif act == "Read":
                new = InputFile.read_ui_json(path, validate=validate, **{k: dict(v) for k, v in options.items()})
                _ = new.data
                infile = new
            elif act == "Assign":
                infile.data = {key: dict_mapper(val, [entity2uuid]) for key, val in dict(infile.data).items()}
            elif act == "Edit":
                edit_project(fx, True)
            elif act == "Demote":
                obs = InputFile.demote(dict(infile.data))
            elif act == "Promote":
                ids = {key: dict_mapper(val, [entity2uuid]) for key, val in dict(infile.data).items()}
                with fetch_active_workspace(infile.geoh5):
                    obs = infile.promote(ids)
            else:
                raise MachineryError(f"unknown action {act}")
        except MachineryError:
            raise
        except Exception as exc:  # pylint: disable=broad-except
            outcome, err = "refused", f"{type(exc).__name__}: {str(exc)[:200]}"
        where = f"{item['cfg']} path {item['id']} step {n} {act}" + \
                (f"(p{last['k']}, {last['v']})" if act == "SetValue" else "")
        if outcome != last["out"]:
            bad(f"mismatch:{act}:outcome", f"{where}: implementation {outcome} ({err}), specification {last['out']}", n)
            break
        if infile is None:      # refused Load: nothing to look at
            break
        diffs = []
        if dst["loaded"]:
            diffs += [("forms", d) for d in compare_forms(dst["forms"], infile.ui_json, reps, fx)]
            diffs += [("data", d) for d in compare_data(dst["data"], header, infile.data, reps, fx, kinds)]
        if act == "Write":
            diffs += [("disk", d) for d in compare_forms(last["obs"], disk, reps, fx, on_disk=True)]
            if not (isinstance(disk.get("geoh5"), str) and
                    os.path.realpath(disk["geoh5"]) == os.path.realpath(fx["path"])):
                diffs.append(("disk", f"geoh5 on disk is {disk.get('geoh5')!r}"))
        if act in ("Demote", "Promote"):
            diffs += [("obs", d) for d in compare_obs(last["obs"], obs, reps, fx, kinds)]
        if diffs:
            what = diffs[0][0]
            bad(f"mismatch:{act}:{what}", f"{where}: " + "; ".join(d for _, d in diffs[:4]) +
                (f" [{err}]" if err else ""), n)
            break
        for entry in dst["viol"]:
            sig = entry["cause"]
            bad(sig, f"{where}: {entry['inv']} broken" + (f" at p{entry['k']}" if entry["k"] else "") +
                f" exactly as the as-built specification predicts ({FINDING_SIGNATURES.get(sig, '?')})" +
                (f"; {err}" if err else "") +
                f"; data now {show([infile.data.get(f'p{k}') for k in range(1, len(raw) + 1)])}", n)
    return {"viol": viol, "steps": n + 1 if item["steps"] else 0}


# ------------------------------------------------------------------ TLC -> paths
def explore(cfg, seed, limit):
    res = tlc.run_tlc(SPEC_DIR, MODULE, cfg, workers=1, heap="4g", timeout=3000)
    if not res.ok:
        raise MachineryError(f"{cfg}: TLC reports {res.violated}: the as-built specification has an unexplained "
                             f"violation or is ill-typed\n{res.raw_tail[-1500:]}")
    gr = tlc.build_graph(res.lines)
    init = [key for key, st in gr.states.items() if st.get("init")]
    hdr = [obj for tag, _, obj in res.lines if tag == "HDR"]
    if not init or not hdr:
        raise MachineryError(f"{cfg}: no initial state / header exported")
    rng = random.Random(seed)
    paths, covered, unreachable = graphmod.path_cover(gr.states, gr.edges, init, max_len=MAX_PATH_LEN,
                                                      rng=random.Random(seed + 1))
    if unreachable:
        raise MachineryError(f"{cfg}: {len(unreachable)} exported transitions unreachable from the initial states")
    total_paths = len(paths)
    exhaustive = True
    if limit is not None and len(paths) > limit:
        # stratified sample: for every initial file its longest path that reads a written file back, then paths
        # that reach a state with Viol entries (they carry the findings), then a seeded sample of the rest
        def reads(p):
            return sum(1 for i in p if gr.edges[i][2]["act"] == "Read")
        order = list(range(len(paths)))
        rng.shuffle(order)
        best = {}
        for j in order:
            first = gr.edges[paths[j][0]][0]
            key = (reads(paths[j]) > 0, len(paths[j]))
            if first not in best or key > best[first][0]:
                best[first] = (key, j)
        chosen = [j for _, j in best.values()][:limit]
        taken = set(chosen)
        flagged = [j for j in order if j not in taken and any(gr.states[gr.edges[i][1]]["viol"] for i in paths[j])]
        room = max(0, limit - len(chosen))
        chosen += flagged[:room // 3]
        taken = set(chosen)
        chosen += [j for j in order if j not in taken][:max(0, limit - len(chosen))]
        paths = [paths[j] for j in sorted(chosen)]
        exhaustive = False
    items = []
    for pid, path in enumerate(paths):
        first = gr.edges[path[0]][0]
        prng = random.Random(f"{seed}:{cfg}:{pid}")
        if first not in init:
            raise MachineryError(f"{cfg}: path {pid} does not start in an initial state")
        mentions_pg = any(t["x"].startswith("pg") for f in gr.states[first]["raw"] for t in f["value"]["e"])
        items.append({"cfg": cfg, "id": pid, "init": gr.states[first], "header": hdr[0],
                      "big": mentions_pg or pid % 10 == 7,
                      "steps": [{"last": gr.edges[i][2], "dst": gr.states[gr.edges[i][1]]} for i in path],
                      "reps": Reps(prng, plain=pid % 3 == 0).doc()})
    edges_replayed = len({i for p in paths for i in p})
    info = {"states": res.distinct, "generated": res.generated, "graph_states": len(gr.states),
            "graph_edges": len(gr.edges), "paths_in_cover": total_paths, "paths_replayed": len(paths),
            "edges_replayed": edges_replayed, "tlc_wall_s": round(res.wall_s, 1), "initial_files": len(init),
            "states_with_viol": sum(1 for st in gr.states.values() if st["viol"]), "exhaustive": exhaustive}
    return items, info


class Background:
    """TLC runs in child Python processes; results are JSON on their stdout."""
    CODE = ("import json, sys; sys.path.insert(0, sys.argv[1]); from harness import tlc\n"
            "r = tlc.run_tlc(sys.argv[2], sys.argv[3], sys.argv[4], workers=int(sys.argv[5]), heap=sys.argv[6], "
            "keep_lines=False, timeout=3000)\n"
            "print(json.dumps({'ok': r.ok, 'violated': r.violated, 'distinct': r.distinct, 'generated': r.generated, "
            "'tail': r.raw_tail[-1500:]}))")

    def __init__(self, jobs, width=4):
        self.todo, self.width, self.running, self.done = list(jobs), width, {}, {}
        self.pump()

    def pump(self):
        import subprocess
        import sys
        for cfg, proc in list(self.running.items()):
            if proc.poll() is not None:
                self._finish(cfg, proc)
        while self.todo and len(self.running) < self.width:
            cfg, workers, heap = self.todo.pop(0)
            self.running[cfg] = subprocess.Popen(
                [sys.executable, "-c", self.CODE, str(tlc.VERIF), SPEC_DIR, MODULE, cfg, str(workers), heap],
                stdout=subprocess.PIPE, stderr=subprocess.PIPE, text=True)

    def _finish(self, cfg, proc):
        out, err = proc.communicate()
        del self.running[cfg]
        try:
            self.done[cfg] = json.loads(out.strip().splitlines()[-1])
        except (IndexError, ValueError) as exc:
            raise MachineryError(f"background TLC run {cfg} failed:\n{out[-800:]}\n{err[-1500:]}") from exc

    def drain(self):
        while self.running or self.todo:
            cfg, proc = next(iter(self.running.items()))
            proc.wait()
            self._finish(cfg, proc)
            self.pump()

    def result(self, cfg):
        return self.done[cfg]


def neg_cfg(dev):
    return f"RtNeg{dev}.cfg"


def run(tier, seed):
    t_all = time.time()
    states = trans = replayed = steps = 0
    per_cfg, samples, viol = {}, [], []
    sig_count = Counter()
    exhaustive = True
    acts = Counter()
    # the ideal configurations and the negative controls are independent TLC runs: they run as child processes
    # (no threads in this process: the replay pool forks) next to the exports and replays, at most 4 at a time
    bg = Background([(cfg, 2 if tier == "quick" else 4, "4g") for cfg in IDEAL[tier]] +
                    [(neg_cfg(dev), 1, "1g") for dev in NEGATIVE[tier]])
    for cfg, limit in CFG[tier]:
        bg.pump()
        items, info = explore(cfg, seed, limit)
        states += info["states"]
        trans += info["generated"]
        exhaustive = exhaustive and info["exhaustive"]
        t0 = time.time()
        out = pmap(_replay, items)
        info["replay_wall_s"] = round(time.time() - t0, 1)
        for res in out:
            steps += res["steps"]
            for v in res["viol"]:
                sig_count[v["signature"]] += 1
                if sig_count[v["signature"]] <= KEEP_PER_SIGNATURE:
                    viol.append(v)
        # every signature keeps its true count in the summary of its first instance
        for item in items:
            for step in item["steps"]:
                acts[step["last"]["act"]] += 1
        replayed += len(items)
        per_cfg[cfg] = info
        mid = items[len(items) // 2]
        samples.append({"cfg": cfg, "validate": mid["init"]["validate"], "raw": mid["init"]["raw"],
                        "actions": [(s["last"]["act"], s["last"]["out"]) for s in mid["steps"]],
                        "data_after_last_step": mid["steps"][-1]["dst"]["data"]})
    for v in viol:
        v["summary"] += f" [seen {sig_count[v['signature']]}x in this run]"
    bg.drain()
    ideal = {}
    for cfg in IDEAL[tier]:
        res = bg.result(cfg)
        if res["violated"] or not res["ok"]:
            raise MachineryError(f"{cfg}: the ideal specification violates {res['violated']} (design-level error)\n"
                                 f"{res['tail']}")
        ideal[cfg] = {"states": res["distinct"], "generated": res["generated"]}
        states += res["distinct"]
        trans += res["generated"]
    neg = {}
    for dev in NEGATIVE[tier]:
        res = bg.result(neg_cfg(dev))
        if "NoViolation" not in res["violated"]:
            raise MachineryError(f"negative control {neg_cfg(dev)}: NoViolation should fail, TLC says {res['violated']}")
        neg[dev] = "NoViolation violated"
    for need in ("Load", "Write", "Read", "SetValue", "Demote", "Promote", "Assign", "Edit"):
        if acts[need] < 20:
            raise MachineryError(f"vacuous coverage: action {need} replayed only {acts[need]} times")
    if replayed < 500:
        raise MachineryError("too few paths replayed")
    return {
        "level": "model_checking",
        "violations": viol,
        "coverage": {
            "states": states, "transitions": trans, "traces_validated_against_impl": replayed,
            "actions_replayed": steps, "actions_by_kind": dict(acts), "samples": samples, "exhaustive": exhaustive,
            "per_config": per_cfg, "ideal_configs": ideal, "negative_controls": neg,
            "signatures_seen": dict(sig_count), "total_wall_s": round(time.time() - t_all, 1),
            "rule": "TLC checks NoViolation (RoundTripData, RoundTripEnabled, ReadRefused, InStep), PromoteDemote, "
                    "TypeOK and WriteKeepsData on the ideal specification and Explained on the as-built one; a path "
                    "cover of the as-built state graph is replayed through InputFile on a real workspace file and "
                    "after every action the outcome, data, ui_json members and the JSON text are compared with the "
                    "state TLC printed; a state that carries Viol entries and is matched exactly by the "
                    "implementation yields the named deviation's signature",
        },
        "assumptions": [
            "bounds: see cfg files in spec/uijson (Rt*.cfg): files of 1-3 parameters, <= 1-2 SetValue, <= 2 writes",
            "behaviour is uniform inside a value class (Int, Float, Str ...): each path draws representatives "
            "(extreme integers/floats, non-ASCII and JSON-hostile strings) from the seed; NaN is excluded as documented",
            "validate=True is exercised on files whose values are in the typed domain of their forms only "
            "(StrictFile); validation verdicts proper belong to C15",
            "the intake of the raw dictionary (numify in the ui_json setter) is not charged: the property observes "
            "InputFile.data / ui_json before writing vs. after reading",
            "in-memory workspaces ('[in-memory]') and files without geoh5 are not covered",
        ],
    }


def replay(doc):
    res = pmap(_replay, [doc["case"]], procs=1)[0]
    return {"violations": res["viol"], "coverage": {"replayed": 1, "actions": res["steps"]}}
