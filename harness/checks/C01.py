"""C01 - decided by spec/core/Geoh5Core.tla (TLC) + replay of the exported state graph (harness/core_replay.py)."""
from ..core_check import make

run, replay = make("C01", ["C01_quick.cfg", "C01pg_quick.cfg", "C01cf_quick.cfg", "C01cp_quick.cfg", "C01md_quick.cfg"], ["C01_thorough.cfg", ("Sim_all.cfg", {"num": 150, "depth": 30})],
                   "histories with close/re-open and GC points: after every action the live projection, the raw file snapshot and the outcome are compared with the state TLC computed; at every Open and at the end of every behaviour the tree of a fresh reader is compared with the live tree before the close", neg=None,
                   concat=[("DrillholeConcatExportFlags.cfg", 21, None)])
