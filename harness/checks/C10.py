"""C10 - read-only workspaces never change the file.  Spec: spec/readonly/ReadOnly.tla

TLC checks the action properties of the specification (ReadOnlyFrozen, ClosedFrozen, WritesRefused, ReadsWork,
HelpersPreserveSource, NoSilentUpgrade, ChangeNeedsWritable) over all behaviours of the abstract alphabet within the depth
bound and exports the state graph.  The abstract operation classes are bound to the real public entry points of Workspace
and of every entity / property-group / type class present in a fixture file (discovered reflectively, classified by their
effect in mode r+ on scratch copies).  Walks of the exported graph are replayed through geoh5py (harness/readonly_replay.py);
after every step the outcome, the handle mode and the SHA-256 of the file are looked up among the transitions TLC generated.
"""
from __future__ import annotations

import os
import random
import shutil
import tempfile
import time
from collections import Counter, defaultdict

from .. import graph as graphmod
from .. import readonly_fixture as rf
from .. import readonly_replay as rr
from .. import tlc
from ..pool import pmap
from ..tlc import MachineryError

CFG = {"quick": "ReadOnlyQuick.cfg", "thorough": "ReadOnlyThorough.cfg"}
ASBUILT = {"RepackOnReadOnlyClose": "AsBuiltRepackExport.cfg", "RepeatAccepted": "AsBuiltRepeatExport.cfg",
           "RefusalUnprotects": "AsBuiltRefusalExport.cfg"}
NEGATIVE = [("NegRepackOnReadOnlyClose.cfg", "ReadOnlyFrozen"), ("NegWriteIgnored.cfg", "WritesRefused"),
            ("NegWriteThroughReadOnly.cfg", "ReadOnlyFrozen"), ("NegLazyGetterUpgrades.cfg", "ReadOnlyFrozen"),
            ("NegHelperUpgrades.cfg", "HelpersPreserveSource"), ("NegHelperOpensWritable.cfg", "HelpersPreserveSource"),
            ("NegRepeatAccepted.cfg", "RepeatRefused"), ("NegRefusalUnprotects.cfg", "WritesRefused")]
HOWS = ("close", "finalize", "exit")
MIN_W, MIN_G, MIN_REFUSED = 100, 300, 100  # vacuity thresholds
_CTX = {}


# ----------------------------------------------------------------------------------------- TLC
def _graph(cfg, check=True):
    res = tlc.run_tlc("readonly", "ReadOnly", cfg, workers=1, heap="2g")
    if check and not res.ok:
        raise MachineryError(f"TLC reports {res.violated} on ReadOnly/{cfg}: the specification violates its own "
                             f"properties\n{res.raw_tail[-2500:]}")
    g = tlc.build_graph(res.lines)
    init = graphmod.split_init(res.lines)
    if len(init) != 1:
        raise MachineryError(f"expected one initial state, got {len(init)}")
    return res, rr.Graph(g, init)


def _negative(cfg, prop):
    res = tlc.run_tlc("readonly", "ReadOnly", cfg, workers=1, heap="1g", keep_lines=False)
    if prop not in res.violated:
        raise MachineryError(f"negative control {cfg}: expected {prop} to be violated, got {res.violated}")
    return f"{cfg}: {prop} violated as expected"


# ----------------------------------------------------------------------------------------- workers
def _classify(ep):
    return rf.classify((_CTX["fixture"], _CTX["digest0"], ep))


def _classify_getters(eps):
    return rf.classify_getters((_CTX["fixture"], _CTX["digest0"], eps))


def _replay(item):
    full = {"fixture": _CTX["fixture"], "digest0": _CTX["digest0"], "sha0": _CTX["sha0"], "_graphs": _CTX["graphs"],
            "steps": item["steps"], "id": item["id"]}
    res = rr.replay_sequence(full)
    res["kind"] = item["kind"]
    # confirmation: an outcome divergence is only reported when the classification of the entry point is reproduced now
    kept = []
    for v in res["violations"]:
        sig = v["signature"]
        step = v["case"]["steps"][v["case"]["failed_at"]]
        if sig.startswith(("getter-raises-in-r:", "write-silently-ignored:")) and "ep" in step:
            ep = step["ep"]
            again = rf.classify((_CTX["fixture"], _CTX["digest0"],
                                 {"id": ep["id"], "kind": ep["kind"], "name": ep["name"], "loc": ep["loc"]}))
            want = "G" if sig.startswith("getter") else "W"
            if again["cls"] != want:
                if want == "W":
                    raise MachineryError(f"classification of {ep['id']} is not reproducible: {again}")
                res.setdefault("reclassified", []).append(ep["id"])
                continue
        v["case"]["fixture"] = "full" if _CTX["full"] else "quick"
        kept.append(v)
    res["violations"] = kept
    return res


# ----------------------------------------------------------------------------------------- run
def _prepare(tmp, full):
    from geoh5py import Workspace
    fixture = os.path.join(tmp, "c10_fixture.geoh5")
    path = os.environ.get("PATH", "")
    stub = os.path.join(tmp, "bin")
    os.makedirs(stub, exist_ok=True)
    with open(os.path.join(stub, "h5repack"), "w", encoding="utf-8") as fh:
        fh.write("#!/bin/sh\nexit 1\n")  # building the fixture needs no repack (the tool is not installed here anyway)
    os.chmod(os.path.join(stub, "h5repack"), 0o755)
    os.environ["PATH"] = stub + os.pathsep + path
    try:
        rf.build_fixture(fixture, full=full)
    finally:
        os.environ["PATH"] = path
    digest0 = rf.content_digest(fixture)
    sha0 = rf.sha_file(fixture)
    with Workspace(fixture, mode="r") as ws:
        holders, eps = rf.discover(ws)
    if rf.sha_file(fixture) != sha0:
        raise MachineryError("the fixture changed while it was being inspected read-only")
    return fixture, digest0, sha0, holders, eps


def _single_pass(eps, classes, seed):
    """Every classified entry point once in mode r on a fresh read-only workspace: Open(r); op; Close."""
    items = []
    by_holder = defaultdict(list)
    n = 0
    for ep in eps:
        c = classes.get(ep["id"])
        if c is None or c["cls"] == "X":
            continue
        bound = {"id": ep["id"], "kind": ep["kind"], "name": ep["name"], "cls": ep["cls"], "family": ep["family"],
                 "loc": ep["loc"], "tag": c["tag"], "deferred": c.get("note") == "deferred"}
        if c["cls"] == "G":
            by_holder[ep["cls"]].append(rr.step_for("Read", {"op": ep["op"]}, bound))
            continue
        act = "Write" if c["cls"] == "W" else "Probe"
        for tag, targets in [(c["tag"], c.get("targets", []))] + list(c.get("variants", [])):
            n += 1
            this = dict(bound, tag=tag)
            steps = [rr.step_for("Open", {"m": "r"}, variant=0), rr.step_for(act, {"op": ep["op"]}, this)]
            if act == "Write" and ep["kind"] == "set":  # the refused assignment once more, verbatim (twice for every third)
                steps += [rr.step_for("Repeat", {"op": ep["op"]})] * (2 if (n + seed) % 3 == 0 else 1)
            elif act == "Write":
                # after the refused creation / removal / copy: the entities it was about (with their data and property
                # groups) stay protected
                for uid, cls, hkind in targets:
                    if classes.get(f"set:{cls}.name", {}).get("cls") == "W":
                        follow = {"id": f"set:{cls}.name", "kind": "set", "name": "name", "cls": cls,
                                  "family": ("PropertyGroup" if hkind == "pgroup" else "Entity") + ".name=",
                                  "loc": {"how": "pg" if hkind == "pgroup" else "uid", "uid": uid}, "tag": "sfx",
                                  "deferred": False}
                        steps.append(rr.step_for("Write", {"op": f"{hkind}.set"}, follow))
            steps.append(rr.step_for("Close", {"how": HOWS[(n + seed) % 3]}))
            items.append({"kind": "pass", "steps": steps})
    rng = random.Random(seed)
    for cls in sorted(by_holder):
        reads = by_holder[cls]
        rng.shuffle(reads)
        for k in range(0, len(reads), 30):
            n += 1
            items.append({"kind": "pass", "steps": [rr.step_for("Open", {"m": "r"}, variant=0)] + reads[k:k + 30]
                          + [rr.step_for("Close", {"how": HOWS[(n + seed) % 3]})]})
    return items


def run(tier, seed):
    t0 = time.time()
    tmp = tempfile.mkdtemp(prefix="c10_fx_", dir="/tmp")
    try:
        return _run(tier, seed, tmp, t0)
    finally:
        shutil.rmtree(tmp, ignore_errors=True)


def _run(tier, seed, tmp, t0):
    fixture, digest0, sha0, holders, eps = _prepare(tmp, tier == "thorough")
    _CTX.update(fixture=fixture, digest0=digest0, sha0=sha0, full=tier == "thorough")
    spec_level = [e["id"] for e in eps if e["spec_level"]]
    eps = [e for e in eps if not e["spec_level"]]

    t_spec = time.time()
    # ---- specification (all TLC runs side by side: they are independent JVMs)
    from concurrent.futures import ThreadPoolExecutor
    with ThreadPoolExecutor(max_workers=7) as pool:
        f_ideal = pool.submit(_graph, CFG[tier])
        f_dev = {name: pool.submit(_graph, cfg, False) for name, cfg in ASBUILT.items()}
        f_neg = [pool.submit(_negative, cfg, prop) for cfg, prop in NEGATIVE]
        res, ideal = f_ideal.result()
        graphs = {"ideal": ideal}
        tlc_states, tlc_trans = res.distinct, res.generated
        for name, fut in f_dev.items():
            r2, g2 = fut.result()
            graphs[name] = g2
            tlc_states += r2.distinct
            tlc_trans += r2.generated
        negatives = [f.result() for f in f_neg]
    _CTX["graphs"] = graphs
    t_tlc = time.time() - t_spec

    # ---- binding: classification of every entry point in mode r+
    t1 = time.time()
    getters = defaultdict(list)
    others = []
    for ep in eps:
        (getters[ep["cls"]].append(ep) if ep["kind"] == "get" else others.append(ep))
    cls_list = pmap(_classify, others, chunksize=4)
    for chunk in pmap(_classify_getters, [getters[k] for k in sorted(getters)], chunksize=1):
        cls_list += chunk
    classes = {c["id"]: c for c in cls_list}
    t_classify = time.time() - t1
    if rf.sha_file(fixture) != sha0:
        raise MachineryError("the fixture changed during classification")
    count = Counter(c["cls"] for c in cls_list)
    if count["W"] < MIN_W or count["G"] < MIN_G:
        raise MachineryError(f"too few entry points classified: {dict(count)}")

    # ---- plans
    binder = rr.Binder(eps, classes, seed)
    bound_ops = {act: set(binder.ops(act)) for act in ("Read", "Write", "Probe")}

    def bound(lab):
        return lab["act"] not in bound_ops or lab["args"]["op"] in bound_ops[lab["act"]]

    # labels of operation classes without entry point cannot be planned: drop them from the walkable graph
    for g in graphs.values():
        for s in list(g.out):
            for lk in list(g.out[s]):
                lab = g.labels[lk]
                if not bound(lab):
                    del g.out[s][lk]
    # what the cover must plan: thorough = every (state, label); quick = every label of the open/close/helper/fetch actions
    # in every state with at most one content change, every operation class in the two primary read-only states, and one
    # operation class per (state, action) elsewhere (rotating with the seed)
    primary = {"r/0/sync/none/none", "r/0/refused/none/none", "r/0/any/none/none"}
    wanted = set()
    for s_key in sorted(ideal.out):
        st = ideal.states[s_key]
        per_act = defaultdict(list)
        for lk in sorted(ideal.out[s_key]):
            per_act[ideal.labels[lk]["act"]].append(lk)
        for act, lks in per_act.items():
            if tier == "thorough" or (act not in bound_ops and st["fileVersion"] <= 1) or s_key in primary:
                wanted.update((s_key, lk) for lk in lks)
            elif st["fileVersion"] <= 1:
                wanted.add((s_key, lks[(seed + len(wanted)) % len(lks)]))

    def want(st, lab):
        return (rr.skey(st), rr.lkey(lab)) in wanted

    depth = 5 if tier == "quick" else 7
    items = _single_pass(eps, classes, seed)
    n_pass = len(items)
    cover, n_planned = rr.cover_plans(ideal, binder, depth, want=want)
    items += [{"kind": "cover", "steps": p} for p in cover]
    rng = random.Random(seed * 7919 + 1)
    n_rand = 150 if tier == "quick" else 2500
    lengths = (3, 4, 5) if tier == "quick" else (3, 4, 5, 6, 7)
    items += [{"kind": "random", "steps": p} for p in rr.random_plans(ideal, binder, n_rand, lengths, rng)]
    for i, it in enumerate(items):
        it["id"] = i

    # ---- replay
    t2 = time.time()
    results = pmap(_replay, items, chunksize=2)
    t_replay = time.time() - t2
    if rf.sha_file(fixture) != sha0:
        raise MachineryError("the fixture itself changed during the replay")

    viol = []
    per_sig = Counter()
    acts = Counter()
    labels = set()
    exercised = set()
    refused_eps = set()
    helpers_ok = Counter()
    skipped = {}
    probe_out = {}
    reclassified = set()
    steps = truncated = writes_refused = reads_ok = repeats_refused = follow_refused = 0
    for r in results:
        for v in r["violations"]:
            per_sig[v["signature"]] += 1
            if per_sig[v["signature"]] <= 5:
                viol.append(v)
        st = r["stats"]
        steps += st["steps"]
        truncated += st["truncated"]
        writes_refused += st["writes_refused"]
        repeats_refused += st["repeats_refused"]
        follow_refused += st["follow_refused"]
        reads_ok += st["reads_ok"]
        acts.update(st["acts"])
        labels.update(st["labels"])
        exercised.update(st["eps"])
        refused_eps.update(st["writes_refused_eps"])
        helpers_ok.update(st["helpers_ok"])
        probe_out.update(st["probe_out"])
        reclassified.update(r.get("reclassified", []))
        for epid, why in st["skipped"]:
            skipped[epid] = why
        if r["kind"] == "pass" and st["steps"] < 2:
            raise MachineryError(f"single-pass sequence {r['id']} stopped after {st['steps']} steps")

    # ---- vacuity (only meaningful when nothing diverged: a divergence stops its sequence)
    w_ids = {i for i, c in classes.items() if c["cls"] == "W"}
    all_ids = {i for i, c in classes.items() if c["cls"] != "X"}
    if not per_sig:
        missing = sorted(w_ids - refused_eps - set(skipped))
        if missing:
            raise MachineryError(f"{len(missing)} mutating entry points were never observed in mode r: {missing[:5]}")
        if len(exercised) < len(all_ids) - len(skipped):
            raise MachineryError(f"only {len(exercised)} of {len(all_ids)} entry points were exercised")
        for h in ("read_ui_json", "input_file", "input_file_ws", "path2workspace", "monitored_copy"):
            if helpers_ok[h] < 1:
                raise MachineryError(f"helper {h} never succeeded on the pristine read-only fixture: the helper part "
                                     f"would be vacuous")
        if writes_refused < MIN_REFUSED:
            raise MachineryError("too few refused writes observed")
        if follow_refused < MIN_REFUSED:
            raise MachineryError("too few assignments after a refused call observed")
        if repeats_refused < MIN_REFUSED:
            raise MachineryError("too few repeated refused assignments observed")
        for act in ("Open", "ReOpen", "Close", "SaveAs", "Read", "Write", "Probe", "Repeat", "Helper", "FetchEnter",
                    "FetchExit"):
            if acts[act] < 5:
                raise MachineryError(f"action {act} was replayed {acts[act]} times only")

    total_labels = sum(1 for s in ideal.out for lk in ideal.out[s])
    families = defaultdict(set)
    for ep in eps:
        families[ep["family"]].add(classes[ep["id"]]["cls"])
    not_exercised = sorted((c["id"], c["note"]) for c in cls_list if c["cls"] == "X")
    needs_writable = sorted(i for i, o in probe_out.items() if o == "refused" and classes[i]["rplus_out"] == "ok")
    sample = next((it for it in items if it["kind"] == "random" and len(it["steps"]) >= 4), items[-1])
    cov = {
        "states": tlc_states, "transitions": tlc_trans,
        "traces_validated_against_impl": len(items), "steps_compared": steps,
        "exhaustive": False,
        "samples": [{"kind": sample["kind"], "behaviour": [_short(s) for s in sample["steps"]]},
                    {"kind": "pass", "behaviour": [_short(s) for s in items[0]["steps"]]}],
        "entry_points_discovered": len(eps) + len(spec_level), "entry_point_families": len(families),
        "holder_classes": len(holders),
        "classified": dict(count),
        "mutating_entry_points": count["W"],
        "mutating_families": sum(1 for f, c in families.items() if "W" in c),
        "mutating_refused_in_mode_r": len(refused_eps & w_ids),
        "entry_points_exercised_in_mode_r": len(exercised),
        "getter_reads_ok_in_mode_r": reads_ok,
        "writes_refused_in_mode_r": writes_refused,
        "repeated_assignments_refused_again": repeats_refused,
        "assignments_refused_after_refused_calls": follow_refused,
        "mutating_deferred_to_close": sum(1 for c in cls_list if c.get("note") == "deferred"),
        "helpers_ok": dict(helpers_ok),
        "sequences": {"single_pass": n_pass, "cover": len(cover), "random": len(items) - n_pass - len(cover)},
        "graph_labels": total_labels, "graph_labels_wanted": len(wanted), "graph_labels_planned": n_planned, "graph_labels_replayed": len(labels & _all_labels(ideal)),
        "actions_replayed": dict(acts), "truncated_plans": truncated,
        "spec_level_entry_points": spec_level,
        "not_exercised": {"count": len(not_exercised), "first": not_exercised[:40]},
        "skipped_in_mode_r": sorted(skipped.items())[:20],
        "getters_reclassified": sorted(reclassified),
        "calls_without_effect_that_need_a_writable_handle": {"count": len(needs_writable), "first": needs_writable[:20]},
        "violation_counts": dict(per_sig),
        "negative_controls": negatives,
        "wall": {"classify_s": round(t_classify, 1), "tlc_s": round(t_tlc, 1), "replay_s": round(t_replay, 1),
                 "total_s": round(time.time() - t0, 1)},
        "rule": "every step of every replayed walk: (outcome, handle mode, file changed?) must be a transition TLC generated for "
                "that action in the current abstract state; file changed = SHA-256 of the bytes while the handle is read-only "
                "or closed, raw content digest while a writable handle is involved; the file hash is checked again at the end "
                "of every sequence",
    }
    return {"level": "model_checking", "violations": viol, "coverage": cov, "assumptions": ASSUME}


def _all_labels(g):
    return {s + "|" + lk for s in g.out for lk in g.out[s]}


def _short(step):
    a = step["args"]
    inner = step["ep"]["id"] + "#" + str(step["ep"]["tag"]) if "ep" in step else ",".join(f"{k}={a[k]}" for k in sorted(a))
    return f"{step['act']}({inner})"


ASSUME = [
    "one fixture file (43 holder classes: workspace, 9 group classes incl. a drillhole group with concatenated holes/data, 20 "
    "object classes incl. three survey pairs, data of every primitive kind, property groups, the three type classes); entry "
    "points that need an argument the hand table does not know are listed as not exercised",
    "an entry point is 'mutating' iff one of its generic calls changes the raw content digest of a scratch copy in mode r+ "
    "(classification is part of the binding, re-done in every run on the current tree)",
    "exact raise/no-raise verdicts only in the state the classification was made in (pristine file, freshly loaded workspace); "
    "after a refused or memory-only call the in-memory side is unconstrained and only the file bytes and the handle mode are compared",
    "h5repack is not installed in the sandbox: a functional stand-in (h5py copy, logs its invocations) is put on the workers' PATH "
    "so that the repack branch of Workspace.close is observable",
    "abstract alphabet: 6 holder kinds x 7 verbs, 5 helpers, sequences up to depth 5 (quick) / 7 (thorough); OSError fallback of "
    "Workspace.open (file not writable) not exercised (the sandbox runs as root)",
    "trusted: TLC, h5py, hashlib, harness/h5snap.py, the binding in harness/readonly_fixture.py / readonly_replay.py",
]


# ----------------------------------------------------------------------------------------- replay of one case
def replay(doc):
    case = doc.get("case")
    if not case:
        return {"violations": [], "coverage": {"replayed": 0}}
    tmp = tempfile.mkdtemp(prefix="c10_fx_", dir="/tmp")
    try:
        full = case.get("fixture", "full") == "full"
        fixture, digest0, sha0, _, _ = _prepare(tmp, full)
        _CTX.update(fixture=fixture, digest0=digest0, sha0=sha0, full=full)
        _, ideal = _graph(CFG["thorough"])
        graphs = {"ideal": ideal}
        for name, cfg in ASBUILT.items():
            graphs[name] = _graph(cfg, check=False)[1]
        _CTX["graphs"] = graphs
        out = pmap(_replay, [{"steps": case["steps"], "id": 0, "kind": "replay"}], procs=1)
        return {"violations": out[0]["violations"], "coverage": {"replayed": 1}}
    finally:
        shutil.rmtree(tmp, ignore_errors=True)
