"""C06 - decided by spec/core/Geoh5Core.tla (TLC) + replay of the exported state graph (harness/core_replay.py)."""
from ..core_check import make

run, replay = make("C06", ["C06_quick.cfg", "C06x_quick.cfg", "C06pg_quick.cfg", "C05blk_quick.cfg"], ["C06_thorough.cfg", "C06x_thorough.cfg", ("Sim_remove.cfg", {"num": 150, "depth": 30})],
                   "explicit identifiers colliding with live entities of any kind, re-creation after removal, copies; refusals must leave live tree, registries and file unchanged; copies get fresh identifiers", neg=None,
                   concat=[("DrillholeConcatExportFlags.cfg", 21, None)])
