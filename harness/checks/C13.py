"""C13 - spatial selection returns exactly what lies inside the box.
Specs: spec/select/ExtentSelect.tla (Points, Curve, Surface, Drillhole, ContainerGroup, utils / Data masks)
       spec/select/ExtentGrid.tla   (Grid2D with rotation and dip, BlockModel, Octree)
TLC enumerates (object, box) configurations with exact integer coordinates (units of 1/q), checks the
C13 invariants on the spec's Mask / CopyFromExtent and prints one CASE per configuration holding the
expected outcome for inverse = False ("f") and True ("t").  This module replays the cases through
mask_by_extent / copy_from_extent of the real classes and compares."""
from __future__ import annotations

import math
import os
import random
import time
from concurrent.futures import ThreadPoolExecutor

import numpy as np

from .. import funcheck
from ..pool import pmap
from ..tlc import MachineryError

# ----------------------------------------------------------------------------------------------
# configurations: (module, cfg file, max objects replayed (None = all))
_QUICK = [
    ("ExtentSelect", "SelSurfaceQuick.cfg", None),
    ("ExtentSelect", "SelCurveQuick.cfg", None),
    ("ExtentSelect", "SelPointsQuick.cfg", None),
    ("ExtentSelect", "SelDrillholeQuick.cfg", None),
    ("ExtentSelect", "SelGroupQuick.cfg", None),
    ("ExtentGrid", "Grid2DFlatQuick.cfg", None),
    ("ExtentGrid", "Grid2DRotQuick.cfg", None),
    ("ExtentGrid", "Grid2DDipQuick.cfg", None),
    ("ExtentGrid", "BlockQuick.cfg", None),
    ("ExtentGrid", "OctreeQuick.cfg", None),
]
CFGS = {
    "quick": _QUICK,
    "thorough": [
        ("ExtentSelect", "SelCurve3.cfg", None),
        ("ExtentSelect", "SelCurve3Z.cfg", None),
        ("ExtentSelect", "SelPoints2Z.cfg", None),
        ("ExtentSelect", "SelSurfaceZ.cfg", None),
        ("ExtentSelect", "SelSurface4.cfg", None),
        ("ExtentSelect", "SelPoints3.cfg", None),
        ("ExtentSelect", "SelCurve4.cfg", None),
        ("ExtentSelect", "SelDrillhole3.cfg", None),
        ("ExtentSelect", "SelGroup2.cfg", None),
        ("ExtentSelect", "SelGroupV2.cfg", None),
        ("ExtentGrid", "Grid2DFlat.cfg", None),
        ("ExtentGrid", "Grid2DRot.cfg", None),
        ("ExtentGrid", "Grid2DDip.cfg", None),
        ("ExtentGrid", "Block.cfg", None),
        ("ExtentGrid", "Block3.cfg", None),
        ("ExtentGrid", "Octree.cfg", None),
    ] + _QUICK,
}
NEGATIVE = [
    ("ExtentSelect", "SelNegOpenBox.cfg", "PointsExact"),
    ("ExtentSelect", "SelNegKeepOrphans.cfg", "VertexClosure"),
    ("ExtentSelect", "SelNegAnyVertex.cfg", "CellsExact"),
    ("ExtentSelect", "SelNegHole.cfg", "HoleExact"),
    ("ExtentGrid", "GridNegKronGaps.cfg", "ValuesFollow"),
    ("ExtentGrid", "GridNegOpenBox.cfg", "CentresExact"),
    ("ExtentGrid", "GridNegStored.cfg", "StoredEqualsLive"),
]
KINDS = {"points", "curve", "surface", "drillhole", "group", "grid2d", "block", "octree"}
CLASS = {"points": "Points", "curve": "Curve", "surface": "Surface", "drillhole": "Drillhole",
         "group": "ContainerGroup"}
EXTRA_COPIES = 2  # per object and inverse flag: random extra copy_from_extent calls beyond one per distinct selection


def _vval(i):
    return 100.0 + i


def _cval(c):
    return 200.0 + c


def _extent(case):
    q = float(case["q"])
    return np.array([[v / q for v in case["box"]["lo"]], [v / q for v in case["box"]["hi"]]], dtype=float)


class _Viol:
    def __init__(self, kind):
        self.kind = kind
        self.items = []

    def add(self, sig, msg, case, inv=None):
        self.items.append({"signature": f"{self.kind}-{sig}", "summary": f"[inverse={inv}] {msg}",
                           "case": {"kind": self.kind, "case": case}})


def _outcome(fn):
    """total verdict: ("ok", value) or ("raises", exception)"""
    try:
        return "ok", fn()
    except Exception as exc:  # pylint: disable=broad-except
        return "raises", exc


def _is_mask(got, n):
    return isinstance(got, np.ndarray) and got.dtype == bool and got.shape == (n,)


def _cmp_mask(viol, what, got, want, none_ok, case, inv):
    """got: ("ok", None | ndarray) | ("raises", exc).  None is acceptable iff none_ok (C13: nothing is
    returned only when the box misses the bounding box or no element qualifies); a mask must be exact."""
    status, val = got
    if status == "raises":
        viol.add(f"{what}-raises:{type(val).__name__}", f"{what} raised {type(val).__name__}: {val}", case, inv)
        return None
    if val is None:
        if not none_ok:
            viol.add(f"{what}-none-but-elements-qualify",
                     f"{what} returned None although the box meets the bounding box and elements qualify "
                     f"(expected {want})", case, inv)
        return None
    if not _is_mask(val, len(want)):
        viol.add(f"{what}-not-a-mask", f"{what} returned {type(val).__name__} {getattr(val, 'shape', None)}", case, inv)
        return None
    if val.tolist() != list(want):
        viol.add(f"{what}-wrong", f"{what} returned {val.tolist()} expected {list(want)}", case, inv)
    return val


# ----------------------------------------------------------------------------------------------
# Points / Curve / Surface
def _build_vertex_object(ws, kind, case):
    from geoh5py import objects
    q = float(case["q"])
    verts = np.array(case["verts"], dtype=float) / q
    kw = {"vertices": verts, "name": "obj"}
    if kind != "points":
        kw["cells"] = np.array(case["cells"], dtype="uint32")
    obj = getattr(objects, CLASS[kind]).create(ws, **kw)
    data = {"vd": {"values": np.array([_vval(i) for i in range(len(verts))]), "association": "VERTEX"}}
    if kind != "points":
        data["cd"] = {"values": np.array([_cval(c) for c in range(len(case["cells"]))]), "association": "CELL"}
    obj.add_data(data)
    return obj, verts


def _child(obj, name):
    found = [c for c in obj.children if getattr(c, "name", None) == name and hasattr(c, "association")]
    return found[0] if len(found) == 1 else None


def _arr(values):
    return None if values is None else np.asarray(values, dtype=float)


def _live_view(val):
    """what the program sees of a copied vertex object"""
    vd, cd = _child(val, "vd"), _child(val, "cd")
    return {"vertices": val.vertices, "cells": getattr(val, "cells", None),
            "vd": None if vd is None else _arr(vd.values), "cd": None if cd is None else _arr(cd.values)}


def _stored_view(ws, val):
    """what a reader of the file sees of the same copy (Workspace.fetch_array_attribute / fetch_values read the
    HDF5 datasets, not the entity's cache): ExtentSelect.tla states that the stored copy is the copy"""
    vd, cd = _child(val, "vd"), _child(val, "cd")
    verts = ws.fetch_array_attribute(val, "vertices")
    if verts is not None:
        verts = np.asarray(verts).view("<f8").reshape((-1, 3))
    cells = ws.fetch_array_attribute(val, "cells") if hasattr(val, "cells") else None
    return {"vertices": verts, "cells": cells,
            "vd": None if vd is None else _arr(ws.fetch_values(vd)), "cd": None if cd is None else _arr(ws.fetch_values(cd))}


def _check_vertex_copy(viol, kind, got, exp, verts, cells, none_ok, case, inv, ws=None):
    """exp = spec copy record: verts (source vertex of each copied vertex), cells (re-indexed), csrc."""
    status, val = got
    if status == "raises":
        viol.add(f"copy-raises:{type(val).__name__}", f"copy_from_extent raised {type(val).__name__}: {val}", case, inv)
        return
    want_v = sorted((tuple(verts[t]), _vval(t)) for t in exp["verts"])
    if val is None:
        if not none_ok:
            viol.add("copy-none-but-elements-qualify",
                     f"copy_from_extent returned None, expected vertices {[w[0] for w in want_v]}", case, inv)
        return
    if type(val).__name__ != CLASS[kind]:
        viol.add("copy-class", f"copy is a {type(val).__name__}", case, inv)
        return
    _check_vertex_view(viol, kind, "copy", _live_view(val), exp, verts, cells, want_v, case, inv)
    if ws is not None:
        status, view = _outcome(lambda: _stored_view(ws, val))
        if status == "raises":
            viol.add(f"stored-copy-raises:{type(view).__name__}", f"reading the stored copy raised {view}", case, inv)
        else:
            _check_vertex_view(viol, kind, "stored-copy", view, exp, verts, cells, want_v, case, inv)


def _check_vertex_view(viol, kind, what, view, exp, verts, cells, want_v, case, inv):
    gv = view["vertices"]
    gv = np.zeros((0, 3)) if gv is None else np.asarray(gv, dtype=float)
    vvals = view["vd"]
    if len(gv) and (vvals is None or vvals.shape != (len(gv),)):
        viol.add(f"{what}-vertex-data-shape", f"vertex data of the {what}: {None if vvals is None else vvals.tolist()} "
                                              f"for {len(gv)} vertices", case, inv)
        return
    have_v = sorted((tuple(map(float, gv[i])), float(vvals[i])) for i in range(len(gv)))
    if [h[0] for h in have_v] != [w[0] for w in want_v]:
        viol.add(f"{what}-vertices", f"{what}: vertices {[h[0] for h in have_v]} expected {[w[0] for w in want_v]}", case, inv)
        return
    if have_v != want_v:
        viol.add(f"{what}-vertex-data", f"{what}: vertex data did not follow: {have_v} expected {want_v}", case, inv)
    if kind == "points":
        return
    want_c = sorted((tuple(sorted(tuple(verts[exp["verts"][a]]) for a in cell)), _cval(src))
                    for cell, src in zip(exp["cells"], exp["csrc"]))
    gc = view["cells"]
    gc = np.zeros((0, len(cells[0])), dtype=int) if gc is None else np.asarray(gc).astype(int)
    if gc.size and (gc.min() < 0 or gc.max() >= len(gv)):
        viol.add(f"{what}-cells-out-of-range", f"{what}: cells {gc.tolist()} with {len(gv)} vertices", case, inv)
        return
    cvals = view["cd"]
    if len(gc) and (cvals is None or cvals.shape != (len(gc),)):
        viol.add(f"{what}-cell-data-shape", f"cell data of the {what}: {None if cvals is None else cvals.tolist()} "
                                            f"for {len(gc)} cells", case, inv)
        return
    have_c = sorted((tuple(sorted(tuple(map(float, gv[a])) for a in cell)), float(cvals[k]))
                    for k, cell in enumerate(gc.tolist()))
    if [h[0] for h in have_c] != [w[0] for w in want_c]:
        viol.add(f"{what}-cells", f"{what}: cells join {[h[0] for h in have_c]} expected {[w[0] for w in want_c]}", case, inv)
    elif have_c != want_c:
        viol.add(f"{what}-cell-data", f"{what}: cell data did not follow: {have_c} expected {want_c}", case, inv)


def _check_data_copy(viol, ws, what, got, dmask, tok, miss, case, inv):
    status, val = got
    if status == "raises":
        viol.add(f"{what}-raises:{type(val).__name__}", f"Data.copy_from_extent raised {type(val).__name__}: {val}", case, inv)
        return
    if val is None:
        if any(dmask) and not miss:
            viol.add(f"{what}-none-but-elements-qualify", f"Data.copy_from_extent returned None, expected mask {dmask}", case, inv)
        return
    vals = None if getattr(val, "values", None) is None else np.asarray(val.values, dtype=float)
    want = np.array([tok(i) if m else np.nan for i, m in enumerate(dmask)])
    if vals is None or vals.shape != want.shape or not np.array_equal(vals, want, equal_nan=True):
        viol.add(f"{what}-wrong", f"Data.copy_from_extent values {None if vals is None else vals.tolist()} expected "
                 f"{want.tolist()}", case, inv)
    status, stored = _outcome(lambda: _arr(ws.fetch_values(val)))
    if status == "raises" or stored is None or stored.shape != want.shape or not np.array_equal(stored, want, equal_nan=True):
        viol.add(f"stored-{what}-wrong", f"Data.copy_from_extent: stored values "
                 f"{stored.tolist() if isinstance(stored, np.ndarray) else stored} expected {want.tolist()}", case, inv)
    ws.remove_entity(val)  # keep the source object's children as they were


def _replay_vertex_group(item):
    """item = (kind, [cases sharing one object], seed, force_copies)"""
    kind, cases, seed, force = item
    from geoh5py import Workspace
    from geoh5py.shared import utils
    viol = _Viol(kind)
    rng = random.Random(seed)
    stats = {"cases": len(cases), "mask_calls": 0, "copies": 0}
    first = cases[0]
    with Workspace() as ws:
        obj, verts = _build_vertex_object(ws, kind, first)
        cells = first["cells"]
        vd, cd = _child(obj, "vd"), _child(obj, "cd")
        seen = set()
        extra = {inv: set(rng.sample(range(len(cases)), min(EXTRA_COPIES, len(cases)))) for inv in (False, True)}
        for idx, case in enumerate(cases):
            ext = _extent(case)
            for inv in (False, True):
                exp = case["t" if inv else "f"]
                # utils.mask_by_extent on (n,3) locations and, for 2-D boxes, on (n,2) locations
                _cmp_mask(viol, "utils-mask", _outcome(lambda: utils.mask_by_extent(verts, ext, inverse=inv)),
                          exp["q"], False, case, inv)
                if ext.shape[1] == 2:
                    _cmp_mask(viol, "utils-mask2", _outcome(lambda: utils.mask_by_extent(verts[:, :2].copy(), ext, inverse=inv)),
                              exp["q"], False, case, inv)
                got = _cmp_mask(viol, "mask", _outcome(lambda: obj.mask_by_extent(ext, inverse=inv)),
                                exp["mask"], exp["none_ok"], case, inv)
                # Data.mask_by_extent follows the code: plain vertex test / all-vertices cell test, never None
                _cmp_mask(viol, "vertex-data-mask", _outcome(lambda: vd.mask_by_extent(ext, inverse=inv)),
                          exp["q"], False, case, inv)
                if cd is not None:
                    _cmp_mask(viol, "cell-data-mask", _outcome(lambda: cd.mask_by_extent(ext, inverse=inv)),
                              exp["ck"], False, case, inv)
                stats["mask_calls"] += 4
                key = (inv, tuple(exp["mask"]), exp["miss"], None if got is None else tuple(got.tolist()))
                if force or key not in seen or idx in extra[inv]:
                    seen.add(key)
                    stats["copies"] += 1
                    res = _outcome(lambda: obj.copy_from_extent(ext, inverse=inv))
                    _check_vertex_copy(viol, kind, res, exp["copy"], verts, cells, exp["none_ok"], case, inv, ws=ws)
                    # Data.copy_from_extent (data.py:112-140): a new data entry on the same parent whose
                    # values outside the data mask are blanked
                    for dat, dmask, tok, what in ((vd, exp["q"], _vval, "vertex-data-copy"), (cd, exp["ck"], _cval, "cell-data-copy")):
                        if dat is not None:
                            _check_data_copy(viol, ws, what, _outcome(lambda: dat.copy_from_extent(ext, inverse=inv)),
                                             dmask, tok, exp["miss"], case, inv)
                            stats["copies"] += 1
        # the source object is not modified by selections
        same = np.array_equal(obj.vertices, verts) and np.array_equal(np.asarray(vd.values), [_vval(i) for i in range(len(verts))])
        if kind != "points":
            same = same and np.array_equal(np.asarray(obj.cells), np.array(cells)) and \
                np.array_equal(np.asarray(cd.values), [_cval(c) for c in range(len(cells))])
        if not same:
            viol.add("source-modified", "the source object changed during selections", first)
    return viol.items, stats


# ----------------------------------------------------------------------------------------------
# Drillhole: the element is the hole, selected by its collar
def _replay_drillhole_group(item):
    kind, cases, seed, force = item
    rng = random.Random(seed)
    from geoh5py import Workspace
    from geoh5py.objects import Drillhole
    viol = _Viol(kind)
    stats = {"cases": len(cases), "mask_calls": 0, "copies": 0}
    first = cases[0]
    q = float(first["q"])
    collar = np.array(first["verts"][0], dtype=float) / q
    nd = first["nd"]
    with Workspace() as ws:
        hole = Drillhole.create(ws, collar=collar, surveys=np.c_[[0.0, 10.0], [0.0, 0.0], [-90.0, -90.0]], name="hole")
        if nd:
            hole.add_data({"dd": {"depth": np.arange(1.0, nd + 1.0), "values": np.array([_vval(i) for i in range(nd)])}})
        seen = set()
        extra = {inv: set(rng.sample(range(len(cases)), min(4 * EXTRA_COPIES, len(cases)))) for inv in (False, True)}
        for idx, case in enumerate(cases):
            ext = _extent(case)
            for inv in (False, True):
                exp = case["t" if inv else "f"]
                got = _cmp_mask(viol, "mask", _outcome(lambda: hole.mask_by_extent(ext, inverse=inv)),
                                exp["mask"], exp["none_ok"], case, inv)
                stats["mask_calls"] += 1
                key = (inv, tuple(exp["mask"]), exp["miss"], ext.shape[1], None if got is None else tuple(got.tolist()))
                if not (force or key not in seen or idx in extra[inv]):
                    continue
                seen.add(key)
                stats["copies"] += 1
                status, val = _outcome(lambda: hole.copy_from_extent(ext, inverse=inv))
                selected = exp["mask"][0]
                asb = exp["asbuilt"]  # prediction of the named deviation HoleMaskAsVertexMask
                if status == "raises":
                    if asb == "raises" and isinstance(val, ValueError) and "Mask must be an array of shape" in str(val):
                        viol.add("copy-raises-mask-shape", f"Drillhole.copy_from_extent raised ValueError: {val} "
                                 f"(collar mask applied to the {nd} hole vertices)", case, inv)
                    else:
                        viol.add(f"copy-raises:{type(val).__name__}", f"{type(val).__name__}: {val}", case, inv)
                    continue
                if val is None:
                    if not exp["none_ok"]:
                        viol.add("copy-none-but-elements-qualify", "collar qualifies but copy_from_extent returned None", case, inv)
                    continue
                if not selected:
                    if asb == "hole":
                        viol.add("copy-returns-unselected-hole", f"collar {collar.tolist()} does not qualify but a hole "
                                 f"was returned (n_vertices={None if val.vertices is None else len(val.vertices)})", case, inv)
                    else:
                        viol.add("copy-unselected", "a hole that does not qualify was returned", case, inv)
                    continue
                ok = type(val).__name__ == "Drillhole" and np.allclose(
                    [val.collar["x"], val.collar["y"], val.collar["z"]], collar)
                if ok and nd:
                    dd = _child(val, "dd")
                    ok = dd is not None and dd.values is not None and \
                        np.array_equal(np.asarray(dd.values, dtype=float), [_vval(i) for i in range(nd)])
                if not ok:
                    viol.add("copy-content", "the copied hole differs from the selected hole", case, inv)
    return viol.items, stats


# ----------------------------------------------------------------------------------------------
# ContainerGroup: top{ a, sub{ b, c } }, every leaf a Points object
def _walk(ent, path, leaves, problems):
    for ch in ent.children:
        name = getattr(ch, "name", "?")
        if type(ch).__name__ == "ContainerGroup":
            _walk(ch, path + [name], leaves, problems)
        elif type(ch).__name__ == "Points":
            key = "/".join(path + [name])
            if key in leaves:
                problems.append(f"duplicate {key}")
            gv = ch.vertices
            gv = np.zeros((0, 3)) if gv is None else np.asarray(gv, dtype=float)
            vd = _child(ch, "vd")
            vals = None if vd is None or vd.values is None else np.asarray(vd.values, dtype=float)
            if len(gv) and (vals is None or vals.shape != (len(gv),)):
                problems.append(f"{key}: data shape")
                vals = np.full(len(gv), np.nan)
            leaves[key] = sorted((tuple(map(float, gv[i])), float(vals[i])) for i in range(len(gv)))
        else:
            problems.append(f"unexpected {type(ch).__name__} {name}")


def _replay_group_group(item):
    kind, cases, seed, force = item
    rng = random.Random(seed)
    from geoh5py import Workspace
    from geoh5py.groups import ContainerGroup
    from geoh5py.objects import Points
    viol = _Viol(kind)
    stats = {"cases": len(cases), "mask_calls": 0, "copies": 0}
    first = cases[0]
    q = float(first["q"])
    paths = ["a", "sub/b", "sub/c"]
    with Workspace() as ws:
        top = ContainerGroup.create(ws, name="top")
        sub = ContainerGroup.create(ws, name="sub", parent=top)
        coords = []
        for l, leaf in enumerate(first["leaves"]):
            xyz = np.array(leaf, dtype=float).reshape((-1, 3)) / q
            coords.append(xyz)
            if len(xyz):
                pts = Points.create(ws, vertices=xyz, name=paths[l].split("/")[-1], parent=top if l == 0 else sub)
                pts.add_data({"vd": {"values": np.array([_vval(10 * l + i) for i in range(len(xyz))])}})
        seen = set()
        extra = {inv: set(rng.sample(range(len(cases)), min(2 * EXTRA_COPIES, len(cases)))) for inv in (False, True)}
        for idx, case in enumerate(cases):
            ext = _extent(case)
            for inv in (False, True):
                exp = case["t" if inv else "f"]
                # one copy per distinct expected outcome (per-leaf selection and miss pattern) plus seeded extras
                key = (inv, tuple((tuple(leaf["kept"]), leaf["code_none"]) for leaf in exp["leaf"]))
                if not (force or key not in seen or idx in extra[inv]):
                    continue
                seen.add(key)
                stats["copies"] += 1
                status, val = _outcome(lambda: top.copy_from_extent(ext, inverse=inv))
                if status == "raises":
                    viol.add(f"copy-raises:{type(val).__name__}", f"{type(val).__name__}: {val}", case, inv)
                    continue
                got, problems = {}, []
                if val is not None:
                    if type(val).__name__ != "ContainerGroup":
                        viol.add("copy-class", f"copy is a {type(val).__name__}", case, inv)
                        continue
                    _walk(val, [], got, problems)
                for p in problems:
                    viol.add("copy-structure", p, case, inv)
                for l, path in enumerate(paths):
                    leaf = exp["leaf"][l]
                    want = sorted((tuple(coords[l][t]), _vval(10 * l + t)) for t in leaf["kept"])
                    have = got.pop(path, None)
                    if have is None or (not have and not want):
                        # leaf absent (or empty): fine when the box misses it or nothing of it qualifies
                        if want and not leaf["none_ok"]:
                            viol.add("copy-leaf-missing", f"leaf {path} is missing, expected {want}", case, inv)
                        continue
                    if have != want:
                        viol.add("copy-leaf-content", f"leaf {path}: {have} expected {want}", case, inv)
                for path, have in got.items():
                    if have:
                        viol.add("copy-leaf-extra", f"unexpected leaf {path}: {have}", case, inv)
    return viol.items, stats



# ----------------------------------------------------------------------------------------------
# Grid2D / BlockModel / Octree: elements are the cell centres
GRID_CLASS = {"grid2d": "Grid2D", "block": "BlockModel", "octree": "Octree"}


def _deg(ang):
    return math.degrees(math.atan2(ang[1], ang[0]))


def _build_grid(ws, case):
    from geoh5py import objects
    g, kind = case["grid"], case["kind"]
    origin = [float(v) for v in case["org"]]
    if kind == "grid2d":
        return objects.Grid2D.create(ws, origin=origin, u_cell_size=float(g["du"]), v_cell_size=float(g["dv"]),
                                     u_count=g["nu"], v_count=g["nv"], rotation=_deg(case["rot"]), dip=_deg(case["dip"]),
                                     name="grid")
    if kind == "block":
        return objects.BlockModel.create(ws, origin=origin, rotation=_deg(case["rot"]), name="grid",
                                         u_cell_delimiters=np.arange(g["nu"] + 1) * float(g["du"]),
                                         v_cell_delimiters=np.arange(g["nv"] + 1) * float(g["dv"]),
                                         z_cell_delimiters=np.arange(g["nw"] + 1) * float(g["dw"]))
    nu, nv, nw, cells = case["oct"]
    return objects.Octree.create(ws, origin=origin, rotation=_deg(case["rot"]), name="grid", u_count=nu, v_count=nv,
                                 w_count=nw, u_cell_size=float(g["du"]), v_cell_size=float(g["dv"]),
                                 w_cell_size=float(g["dw"]), octree_cells=np.array(cells, dtype=int))


def _positions(centroids, q, where):
    """cell-centre coordinates -> exact integer numerators over q (the spec's units)"""
    if centroids is None:
        return None
    scaled = np.asarray(centroids, dtype=float) * q
    near = np.rint(scaled)
    if scaled.size and np.abs(scaled - near).max() > 1e-6 * q:
        return None
    return [where.get(tuple(int(v) for v in row)) for row in near]


def _replay_grid_group(item):
    kind, cases, seed, force = item
    from geoh5py import Workspace
    viol = _Viol(kind)
    rng = random.Random(seed)
    stats = {"cases": len(cases), "mask_calls": 0, "copies": 0}
    first = cases[0]
    q = first["q"]
    n = len(first["cells"])
    where = {tuple(c): k for k, c in enumerate(first["cells"], 1)}  # coordinates -> spec cell number
    with Workspace() as ws:
        grid = _build_grid(ws, first)
        pos = _positions(grid.centroids, q, where)
        if pos is None or None in pos or sorted(pos) != list(range(1, n + 1)):
            viol.add("centroids-differ", f"cell centres {np.round(grid.centroids, 6).tolist()} are not the "
                     f"specified ones {[[v / q for v in c] for c in first['cells']]}", first)
            return viol.items, stats
        idx_of = {k: i for i, k in enumerate(pos)}  # spec cell number -> index in the library's arrays
        values = np.zeros(n)
        for k, i in idx_of.items():
            values[i] = _cval(k)
        grid.add_data({"cd": {"values": values.copy(), "association": "CELL"}})
        cd = _child(grid, "cd")
        order = [idx_of[k] for k in range(1, n + 1)]
        seen = set()
        extra = {inv: set(rng.sample(range(len(cases)), min(EXTRA_COPIES, len(cases)))) for inv in (False, True)}

        def in_spec_order(res):
            status, val = res
            if status == "ok" and _is_mask(val, n):
                return status, val[order]
            return res

        for idx, case in enumerate(cases):
            ext = _extent(case)
            for inv in (False, True):
                exp = case["t" if inv else "f"]
                got = _cmp_mask(viol, "mask", in_spec_order(_outcome(lambda: grid.mask_by_extent(ext, inverse=inv))),
                                exp["mask"], exp["none_ok"], case, inv)
                _cmp_mask(viol, "cell-data-mask", in_spec_order(_outcome(lambda: cd.mask_by_extent(ext, inverse=inv))),
                          exp["mask"], False, case, inv)
                stats["mask_calls"] += 2
                key = (inv, tuple(exp["mask"]), exp["miss"], None if got is None else tuple(got.tolist()))
                if not (force or key not in seen or idx in extra[inv]):
                    continue
                seen.add(key)
                stats["copies"] += 1
                status, val = _outcome(lambda: grid.copy_from_extent(ext, inverse=inv))
                if status == "raises":
                    viol.add(f"copy-raises:{type(val).__name__}", f"copy_from_extent raised {type(val).__name__}: {val}", case, inv)
                    continue
                want = {c["pos"]: c["src"] for c in exp["copy"]["cells"]}
                selected = {k: s for k, s in want.items() if s}
                if val is None:
                    if not exp["none_ok"]:
                        viol.add("copy-none-but-elements-qualify", f"copy_from_extent returned None, expected cells "
                                 f"{sorted(selected)}", case, inv)
                    continue
                if type(val).__name__ != GRID_CLASS[kind]:
                    viol.add("copy-class", f"copy is a {type(val).__name__}", case, inv)
                    continue
                cpos = _positions(val.centroids, q, where)
                ccd = _child(val, "cd")
                cvals = None if ccd is None or ccd.values is None else np.asarray(ccd.values, dtype=float)
                if cpos is None or None in cpos or len(set(cpos)) != len(cpos):
                    viol.add("copy-cells-off-grid", f"cells of the copy are not cells of the source: "
                             f"{np.round(val.centroids, 6).tolist()}", case, inv)
                    continue
                if cvals is None or cvals.shape != (len(cpos),):
                    viol.add("copy-data-shape", f"cell data of the copy: {None if cvals is None else cvals.tolist()} for "
                             f"{len(cpos)} cells", case, inv)
                    continue
                have = {}
                for k, v in zip(cpos, cvals.tolist()):
                    have[k] = 0 if np.isnan(v) else (int(v - 200.0) if float(v - 200.0).is_integer() else v)
                ok = have == want
                if not ok and not selected:
                    ok = not any(have.values())  # nothing qualifies: None or any all-blank grid
                if not ok and kind == "grid2d" and inv and exp["cover"]:
                    # property text: smallest covering sub-grid; code: whole grid.  Both hold the selection exactly.
                    i0, i1, j0, j1 = exp["cover"]
                    nu = case["grid"]["nu"]
                    rect = {k: s for k, s in want.items() if i0 <= (k - 1) % nu <= i1 and j0 <= (k - 1) // nu <= j1}
                    ok = have == rect
                if ok:
                    # the stored copy (what a reader of the file gets: Workspace.fetch_values reads the dataset,
                    # not the cache) holds the same values as the live copy: ExtentGrid.tla StoredEqualsLive
                    status, sv = _outcome(lambda: _arr(ws.fetch_values(ccd)))
                    if status == "raises" or sv is None or sv.shape != (len(cpos),):
                        viol.add("stored-copy-unreadable", f"stored cell data of the copy: {sv}", case, inv)
                        continue
                    stored = {k: 0 if np.isnan(v) else (int(v - 200.0) if float(v - 200.0).is_integer() else v)
                              for k, v in zip(cpos, sv.tolist())}
                    swant = {c["pos"]: c["src"] for c in exp["stored"]}
                    if stored != have or (have == want and stored != swant):
                        viol.add("stored-copy-wrong", f"the stored copy holds (cell -> value of cell, 0 = blank) {stored} "
                                 f"but the live copy {have} (specified: {swant})", case, inv)
                    continue
                asb = {c["pos"]: c["src"] for c in exp["asbuilt"]["cells"]}
                if asb and have == asb:
                    viol.add("copy-gap-lines-collapsed",
                             f"selected cells {sorted(selected)} leave a column/row without selected cell between them; "
                             f"the copy has cells {sorted(have)} with values of {have} instead of the covering sub-grid "
                             f"{sorted(want)} holding {selected}", case, inv)
                else:
                    viol.add("copy-wrong", f"copy holds (cell -> value of cell, 0 = blank) {have} expected {want}", case, inv)
        now = _positions(grid.centroids, q, where)
        if now != pos or not np.array_equal(np.asarray(cd.values, dtype=float), values):
            viol.add("source-modified", "the source grid changed during selections", first)
    return viol.items, stats


REPLAYERS = {"points": _replay_vertex_group, "curve": _replay_vertex_group, "surface": _replay_vertex_group,
             "drillhole": _replay_drillhole_group, "group": _replay_group_group,
             "grid2d": _replay_grid_group, "block": _replay_grid_group, "octree": _replay_grid_group}


def _object_key(case):
    return repr((case["kind"], case.get("verts"), case.get("cells"), case.get("leaves"), case.get("nd"), case.get("grid")))


CHUNK = 300  # cases per work item: one object is rebuilt for every chunk of its boxes (load balance)


def _group_cases(cases):
    groups = {}
    for c in cases:
        groups.setdefault(_object_key(c), []).append(c)
    return list(groups.values())


def _chunks(group):
    return [group[i:i + CHUNK] for i in range(0, len(group), CHUNK)]


def _dispatch(item):
    return REPLAYERS[item[0]](item)


def _enumerate(module, cfg):
    return funcheck.enumerate_cases("select", module, cfg, workers=1, heap="4g")


def _replay_cfg(cfg, res, cases, seed, max_objects):
    groups = _group_cases(cases)
    n_groups = len(groups)
    full = True
    if max_objects is not None and n_groups > max_objects:
        rng = random.Random(seed)
        groups = [groups[i] for i in sorted(rng.sample(range(n_groups), max_objects))]
        full = False
    kind = cases[0]["kind"]
    items = [(kind, ch, seed * 1000003 + i * 1009 + j, False)
             for i, g in enumerate(groups) for j, ch in enumerate(_chunks(g))]
    t0 = time.time()
    out = pmap(_dispatch, items, chunksize=1)
    wall = time.time() - t0
    viol = [v for r in out for v in r[0]]
    stats = {"cases_enumerated_by_tlc": len(cases), "objects": n_groups, "objects_replayed": len(groups),
             "cases_replayed": sum(r[1]["cases"] for r in out), "mask_calls": sum(r[1]["mask_calls"] for r in out),
             "copy_calls": sum(r[1]["copies"] for r in out), "tlc_states": res.distinct, "tlc_generated": res.generated,
             "tlc_wall_s": round(res.wall_s, 1), "replay_wall_s": round(wall, 1), "kind": kind, "exhaustive": full}
    mid = groups[len(groups) // 2]
    sample = {"cfg": cfg, "case": mid[len(mid) // 2]}
    return viol, stats, sample


PREFETCH = 3  # TLC runs (1 worker each) in flight while the main thread replays earlier configurations


def run(tier, seed):
    cfgs = CFGS[tier]
    only = os.environ.get("C13_CFGS")  # development aid: comma separated cfg names to restrict a run
    if only:
        cfgs = [c for c in cfgs if c[1] in only.split(",")]
    viol, per_cfg, samples = [], {}, []
    t0 = time.time()
    with ThreadPoolExecutor(max_workers=PREFETCH + 2) as tp:
        futs = {}
        for i in range(min(PREFETCH, len(cfgs))):
            futs[i] = tp.submit(_enumerate, cfgs[i][0], cfgs[i][1])
        negs = [tp.submit(funcheck.expect_violation, "select", module, cfg, inv) for module, cfg, inv in NEGATIVE]
        for i, (module, cfg, mx) in enumerate(cfgs):
            res, cases = futs.pop(i).result()
            nxt = i + PREFETCH
            if nxt < len(cfgs):
                futs[nxt] = tp.submit(_enumerate, cfgs[nxt][0], cfgs[nxt][1])
            v, st, sample = _replay_cfg(cfg, res, cases, seed, mx)  # fork pool from the main thread only
            del cases
            viol += v
            per_cfg[cfg] = st
            samples.append(sample)
        neg_txt = [f"{cfg}: {inv} violated ({fut.result().violated})" for (_, cfg, inv), fut in zip(NEGATIVE, negs)]
    kinds = {st["kind"] for st in per_cfg.values()}
    if kinds != KINDS and not only:
        raise MachineryError(f"expected kinds missing: {KINDS - kinds}")
    for cfg, st in per_cfg.items():
        if st["copy_calls"] == 0 or (st["kind"] != "group" and st["mask_calls"] == 0):
            raise MachineryError(f"{cfg}: nothing was replayed")
    replayed = sum(st["cases_replayed"] for st in per_cfg.values())
    if replayed < 1000:
        raise MachineryError("too few cases replayed")
    return {
        "level": "model_checking",
        "violations": viol,
        "coverage": {
            "states": sum(st["tlc_states"] for st in per_cfg.values()),
            "transitions": sum(st["tlc_generated"] for st in per_cfg.values()),
            "traces_validated_against_impl": replayed,
            "mask_calls": sum(st["mask_calls"] for st in per_cfg.values()),
            "copy_calls": sum(st["copy_calls"] for st in per_cfg.values()),
            "samples": samples[:4],
            "exhaustive": all(st["exhaustive"] for st in per_cfg.values()),
            "per_config": per_cfg,
            "negative_controls": neg_txt,
            "wall_total_s": round(time.time() - t0, 1),
            "rule": "TLC enumerates every (object, box) configuration within the constants of each cfg, checks the C13 "
                    "invariants on the spec's Mask / CopyFromExtent (both inverse flags) and prints the expected outcome; "
                    "every case is replayed: object, utils and Data masks on every case and flag; copy_from_extent (object "
                    "and Data) once per distinct selection of each object chunk plus seeded extras; grids are matched to "
                    "the spec by cell-centre coordinates; six named-deviation cfgs must violate their invariant",
        },
        "assumptions": [
            "bounds: cfg files in spec/select (lattice <= 3x3x2, <= 4 vertices, every cell set, half-unit box faces; "
            "Grid2D <= 3x3, BlockModel <= 2x2x2 (3x2x1), 5 octree layouts, 13 exact rotation / dip angles)",
            "exact cases (lattice objects, unrotated grids) put faces exactly on coordinates; rotated / dipped grids keep "
            "every face >= 1/10 unit from every centre coordinate (invariant FacesSafe), so round-off cannot decide",
            "None is accepted exactly when the box misses the bounding box or nothing qualifies; an empty object / "
            "all-blank grid is accepted as the empty selection; order, orientation and array layout are not compared",
            "float data only; trusted: TLC, this comparison code",
        ],
    }


def replay(doc):
    kind = doc["case"]["kind"]
    case = doc["case"]["case"]
    v, _ = REPLAYERS[kind]((kind, [case], 0, True))
    return {"violations": v, "coverage": {"replayed": 1}}
