"""C15 - ui.json validation accepts exactly the valid values, statelessly.

Spec: spec/uijson/UiJsonValidate.tla (one module, four targets: classic InputFile / InputValidation,
one_of pair, new Parameter / FormParameter / EnforcerPool, UIJson).

Every configuration is a bounded state machine over ONE validator / parameter / form object.  TLC
checks VerdictIsAccepts and RejectedLeavesUnchanged on the ideal machine (devOn = {}) and exports the
machine for every choice devOn of the named deviations listed in the cfg:
  * depth-1 configurations ("cases") print one CASE line per form x value x entry point x devOn,
  * deeper configurations print the state graph (ST / TR lines).
The harness replays every case / a path cover of the graph on real geoh5py objects.  After every call it
keeps the devOn choices whose exported outcome (verdict, visible state) equals what geoh5py did:
  - devOn = {} still explains the run                       -> conforming,
  - only choices with deviations explain it                 -> finding "dev:<Name>" for the smallest choice,
  - nothing explains it                                     -> violation (verdict / state mismatch).
"""
from __future__ import annotations

import json
import os
import random
import time
from concurrent.futures import ThreadPoolExecutor

from .. import funcheck, graph, tlc
from ..pool import pmap
from ..tlc import MachineryError

SPEC_DIR = "uijson"
MODULE = "UiJsonValidate"

# (cfg, kind of export, sample limit or None)
PLAN = {
    "quick": [
        ("CasesSwitches.cfg", "case", None),
        ("CasesValues.cfg", "case", None),
        ("NewCases.cfg", "case", None),
        ("InputFileQuick.cfg", "graph", None),
        ("InputFilePrimed.cfg", "graph", None),
        ("InputFileMulti.cfg", "graph", None),
        ("OneOfQuick.cfg", "graph", None),
        ("ParamQuick.cfg", "graph", None),
        ("FormQuick.cfg", "graph", None),
        ("UIJsonQuick.cfg", "graph", None),
    ],
    "thorough": [
        ("CasesSwitches.cfg", "case", None),
        ("CasesValues.cfg", "case", None),
        ("CasesValuesDep.cfg", "case", None),
        ("NewCases.cfg", "case", None),
        ("InputFileThorough.cfg", "graph", None),
        ("InputFileDeep.cfg", "graph", None),
        ("InputFilePrimed.cfg", "graph", None),
        ("InputFilePrimedDeep.cfg", "graph", None),
        ("InputFileMulti.cfg", "graph", None),
        ("OneOfDeep.cfg", "graph", None),
        ("ParamThorough.cfg", "graph", None),
        ("FormDeep.cfg", "graph", None),
        ("UIJsonDeep.cfg", "graph", None),
    ],
}
NEGATIVE = [
    ("NegStaleRuleTable.cfg", "VerdictIsAcceptsStrict"),
    ("NegStrIdSkipsMembership.cfg", "VerdictIsAcceptsStrict"),
    ("NegPgTypeNeedsEntity.cfg", "VerdictIsAcceptsStrict"),
    ("NegMultiItemsUnchecked.cfg", "VerdictIsAcceptsStrict"),
    ("NegOneOfPopped.cfg", "VerdictIsAcceptsStrict"),
    ("NegPoolKeepsErrors.cfg", "VerdictIsAcceptsStrict"),
    ("NegPoolKeepsErrorsUIJson.cfg", "VerdictIsAcceptsStrict"),
    ("NegStoreBeforeValidate.cfg", "RejectedLeavesUnchangedStrict"),
]
TARGET_OF = {"Cases": "classic", "InputFile": "classic", "OneOf": "oneof", "NewCases": "param",
             "Param": "param", "Form": "form", "UIJson": "uijson"}


def _target(cfgfile):
    for prefix in ("NewCases", "Cases", "InputFile", "OneOf", "Param", "Form", "UIJson"):
        if cfgfile.startswith(prefix):
            return TARGET_OF[prefix]
    raise MachineryError(f"no target for {cfgfile}")


def _key(obj):
    return json.dumps(obj, sort_keys=True)


def _strip(cfg):
    return {k: v for k, v in cfg.items() if k != "devOn"}


# ---------------------------------------------------------------- items from the TLC export
def _items_from_cases(cfgfile, cases):
    """One item per (form, entry point, value); the expectations of every deviation choice side by side."""
    target = _target(cfgfile)
    groups = {}
    for c in cases:
        k = _key([_strip(c["cfg"]), c["act"], c["arg"]])
        it = groups.get(k)
        if it is None:
            it = groups[k] = {"target": target, "cfgfile": cfgfile, "cfg": _strip(c["cfg"]), "init": c["pre"],
                              "labels": [[c["act"], c["arg"], ""]], "expect": []}
            if target == "classic":
                it["req"] = c["req"]
        it["expect"].append([sorted(c["cfg"]["devOn"]), [[c["out"], c["post"]]]])
    items = list(groups.values())
    for it in items:
        it["expect"].sort(key=lambda e: (len(e[0]), e[0]))
        if not it["expect"] or it["expect"][0][0]:
            raise MachineryError(f"{cfgfile}: no ideal expectation for {it['cfg']} {it['labels']}")
    return items


def _items_from_graph(cfgfile, lines, seed, limit):
    """Path cover of the exported graph -> label sequences per form, with the outcome sequence that each
    deviation choice predicts for them."""
    target = _target(cfgfile)
    g = tlc.build_graph(lines)
    init = graph.split_init(lines)
    if not init or not g.edges:
        raise MachineryError(f"{cfgfile}: empty graph export")
    adj = {}
    for src, dst, lab in g.edges:
        lk = (lab["act"], lab["arg"], lab["arg2"])
        slot = adj.setdefault(src, {})
        if lk in slot and slot[lk] != (lab["out"], dst):
            raise MachineryError(f"{cfgfile}: specification is not deterministic at {g.states[src]} {lk}")
        slot[lk] = (lab["out"], dst)
    groups = {}
    for s in init:
        groups.setdefault(_key(_strip(g.states[s]["cfg"])), []).append(s)
    paths, covered, unreachable = graph.path_cover(g.states, g.edges, init, max_len=40)
    if unreachable:
        raise MachineryError(f"{cfgfile}: {len(unreachable)} exported transitions are unreachable")
    seqs = {}
    for p in paths:
        gk = _key(_strip(g.states[g.edges[p[0]][0]]["cfg"]))
        labs = tuple((g.edges[i][2]["act"], g.edges[i][2]["arg"], g.edges[i][2]["arg2"]) for i in p)
        seqs.setdefault(gk, set()).add(labs)
    items = []
    for gk, group_seqs in seqs.items():
        ordered = sorted(group_seqs, key=lambda s: (-len(s), s))
        kept = []
        have = set()
        for s in ordered:  # a sequence that is a prefix of a kept one is replayed anyway
            if s in have:
                continue
            kept.append(s)
            for n in range(1, len(s) + 1):
                have.add(s[:n])
        for labs in kept:
            expect = []
            for s0 in groups[gk]:
                cur = s0
                outs = []
                for lk in labs:
                    if lk not in adj.get(cur, {}):
                        raise MachineryError(f"{cfgfile}: label {lk} missing from {g.states[cur]}")
                    out, cur = adj[cur][lk]
                    outs.append([out, g.states[cur]["vis"]])
                expect.append([sorted(g.states[s0]["cfg"]["devOn"]), outs])
            expect.sort(key=lambda e: (len(e[0]), e[0]))
            if expect[0][0]:
                raise MachineryError(f"{cfgfile}: no ideal behaviour for {gk}")
            st0 = g.states[groups[gk][0]]
            items.append({"target": target, "cfgfile": cfgfile, "cfg": json.loads(gk), "init": st0["vis"],
                          "labels": [list(lk) for lk in labs], "expect": expect})
    items.sort(key=lambda it: (_key(it["cfg"]), it["labels"]))
    total = len(items)
    if limit is not None and total > limit:
        rng = random.Random(seed)
        items = [items[i] for i in sorted(rng.sample(range(total), limit))]
    return items, {"graph_states": len(g.states), "graph_edges": len(g.edges), "edges_covered": covered,
                   "label_sequences": total, "sequences_replayed": len(items)}


# ---------------------------------------------------------------- replay of one item on real objects
def _replay(item):
    from ..uijson_impl import MACHINES
    target, labels, expect = item["target"], item["labels"], item["expect"]
    viol = []

    def bad(sig, msg, upto):
        case = {k: v for k, v in item.items() if not k.startswith("diverged_")}
        case["labels"] = labels[:upto]
        case["expect"] = [[d, outs[:upto]] for d, outs in expect]
        viol.append({"signature": sig, "summary": msg, "case": case})

    where = f"{item['cfgfile']} {funcheck.short(item['cfg'], 300)}"
    try:
        machine = MACHINES[target](item["cfg"])
    except Exception as exc:  # pylint: disable=broad-except
        bad(f"construction:{target}", f"{where}: cannot build the object: {type(exc).__name__}: {exc}", 0)
        return viol
    vis0 = machine.visible()
    if vis0 != item["init"]:
        bad(f"init-state:{target}", f"{where}: initial state {vis0}, specification {item['init']}", 0)
        return viol
    if "req" in item:
        got = machine.requires_value()
        if got != item["req"]:
            bad(f"requires-value:{item['req']}->{got}",
                f"{where}: requires_value() = {got}, documented hierarchy = {item['req']}", 0)
    alive = list(range(len(expect)))
    for i, (act, arg, arg2) in enumerate(labels):
        verdict, vis, why, changed = machine.step(act, arg, arg2)
        done = f"{where} after {labels[:i]}: {act}({arg}{',' + arg2 if arg2 else ''})"
        if changed:
            bad(f"changed-on-reject:{target}", f"{done} was rejected ({why}) but data / ui_json changed", i + 1)
            return viol
        nxt = [j for j in alive if expect[j][1][i] == [verdict, vis]]
        if not nxt:
            ref = expect[alive[0]]
            exp_out, exp_vis = ref[1][i]
            note = f" [following deviations {ref[0]}]" if ref[0] else ""
            if exp_out != verdict:
                kind = "None" if arg == "None" else "value"
                bad(f"verdict:{target}:{kind}:{exp_out}->{verdict}",
                    f"{done}: geoh5py {verdict} ({why}), specification {exp_out}{note}", i + 1)
            else:
                bad(f"state:{target}:{verdict}", f"{done}: {verdict}, state {vis}, specification {exp_vis}{note}", i + 1)
            return viol
        if 0 in alive and 0 not in nxt:
            item = dict(item)
            item["diverged_at"] = i
            item["diverged_how"] = (f"{done}: geoh5py {verdict} ({why}) state {vis}; "
                                    f"ideal {expect[0][1][i][0]} state {expect[0][1][i][1]}")
        alive = nxt
    if 0 not in alive:
        devs = expect[alive[0]][0]
        for name in devs:
            bad(f"dev:{name}", f"explained only by deviation(s) {devs}: {item.get('diverged_how')}", len(labels))
    return viol


def _primed(item):
    """Runs in the second generation of workers: sequences that start with Prime, and every item whose own
    form is multiSelect (building it is itself a load of a multiSelect ui.json)."""
    return any(lab[0] == "Prime" for lab in item["labels"]) or item["cfg"].get("kind") == "objectmulti"


# ---------------------------------------------------------------- run
def _run_tlc(cfgfile, **kw):
    """TLC with one retry: a JVM that dies on a loaded machine is a machinery problem, not a verdict."""
    try:
        return tlc.run_tlc(SPEC_DIR, MODULE, cfgfile, workers=1, **kw)
    except MachineryError:
        time.sleep(2.0)
        return tlc.run_tlc(SPEC_DIR, MODULE, cfgfile, workers=1, **kw)


def _tlc(cfgfile):
    res = _run_tlc(cfgfile, heap="2g", timeout=1800)
    if not res.ok:
        raise MachineryError(f"TLC reports {res.violated} on {cfgfile}: the ideal machine violates C15 "
                             f"(design-level error)\n{res.raw_tail[-1500:]}")
    return res


def _neg(pair):
    cfgfile, prop = pair
    res = _run_tlc(cfgfile, heap="1g", timeout=600, keep_lines=False)
    if prop not in res.violated:
        raise MachineryError(f"negative control {cfgfile}: expected {prop} to be violated, got {res.violated}")
    return f"{cfgfile}: {prop} violated"


def run(tier, seed):
    plan = PLAN[tier]
    procs = int(os.environ.get("VERIF_PROCS", "16"))
    t0 = time.time()
    with ThreadPoolExecutor(max_workers=max(1, min(procs, 6))) as ex:
        futs = {c: ex.submit(_tlc, c) for c, _, _ in plan}
        negs = list(ex.map(_neg, NEGATIVE))
        results = {c: f.result() for c, f in futs.items()}
    tlc_wall = time.time() - t0
    states = trans = 0
    per_cfg = {}
    all_items = []
    exhaustive = True
    for cfgfile, kind, limit in plan:
        res = results[cfgfile]
        states += res.distinct
        trans += res.generated
        if kind == "case":
            cases = [obj for t, _, obj in res.lines if t == "CASE"]
            if not cases:
                raise MachineryError(f"no CASE lines exported by {cfgfile}")
            items = _items_from_cases(cfgfile, cases)
            total = len(items)
            items, full = funcheck.sample(items, limit, seed)
            info = {"cases_enumerated_by_tlc": len(cases), "distinct_calls": total, "replayed": len(items)}
        else:
            items, info = _items_from_graph(cfgfile, res.lines, seed, limit)
            full = info["sequences_replayed"] == info["label_sequences"]
            info["replayed"] = len(items)
        exhaustive = exhaustive and full
        info.update({"tlc_states": res.distinct, "tlc_transitions": res.generated, "tlc_wall_s": round(res.wall_s, 1)})
        per_cfg[cfgfile] = info
        all_items += items
        res.lines = []
    t1 = time.time()
    # UIJson items open a workspace file for every validate(): spread them between the cheap ones
    rng = random.Random(seed)
    rng.shuffle(all_items)
    # two generations of worker processes: calls that the specification judges after "Prime" (another ui.json
    # loaded in the same process) must not share a process with the calls judged in a fresh one
    fresh = [it for it in all_items if not _primed(it)]
    primed = [it for it in all_items if _primed(it)]
    if not primed:
        raise MachineryError("no primed call sequence was exported")
    out = pmap(_replay, fresh) + pmap(_replay, primed)
    all_items = fresh + primed
    replay_wall = time.time() - t1
    viol = [v for r in out for v in (r or [])]
    # simplest example of every failure mode first (./check prints the first one per signature)
    def simple(v):
        form = v["case"]["cfg"]
        return (v["signature"], sum(1 for k in ("group", "gopt", "dep") if form.get(k)), len(v["case"]["labels"]),
                len(v["summary"]), v["summary"])
    viol.sort(key=simple)
    steps = sum(len(it["labels"]) for it in all_items)
    by_target = {}
    for it in all_items:
        by_target[it["target"]] = by_target.get(it["target"], 0) + 1
    for t in ("classic", "oneof", "param", "form", "uijson"):
        if not by_target.get(t):
            raise MachineryError(f"no replay item for target {t}")
    # vacuity: the ideal machine must both accept and reject on every target, None included on the classic path
    seen = set()
    for it in all_items:
        for (act, arg, _), (out, _vis) in zip(it["labels"], it["expect"][0][1]):
            seen.add((it["target"], out))
            if it["target"] == "classic" and arg == "None":
                seen.add(("classic-None", out))
    for t in ("classic", "oneof", "param", "form", "uijson", "classic-None"):
        for out in ("ok", "rejected"):
            if (t, out) not in seen:
                raise MachineryError(f"vacuous coverage: no ideal outcome {out!r} for {t}")
    multi = [it for it in all_items if len(it["labels"]) >= 3]
    if len(multi) < 50:
        raise MachineryError("fewer than 50 call sequences of length >= 3 were replayed")
    samples = []
    for t in ("classic", "oneof", "param", "form", "uijson"):
        cand = [it for it in multi if it["target"] == t] or [it for it in all_items if it["target"] == t]
        it = cand[len(cand) // 2]
        samples.append({"cfg_file": it["cfgfile"], "form": it["cfg"], "calls": it["labels"],
                        "ideal_outcomes": it["expect"][0][1]})
    return {
        "level": "model_checking",
        "violations": viol,
        "coverage": {
            "states": states, "transitions": trans,
            "traces_validated_against_impl": len(all_items), "calls_replayed": steps,
            "replayed_by_target": by_target, "sequences_of_3_or_more_calls": len(multi),
            "samples": samples, "exhaustive": exhaustive, "per_config": per_cfg,
            "negative_controls": negs,
            "tlc_wall_s": round(tlc_wall, 1), "replay_wall_s": round(replay_wall, 1),
            "rule": "TLC checks VerdictIsAccepts and RejectedLeavesUnchanged (plus HierarchyLaws, CodeIsHierarchy, "
                    "TableIsCurrent) on the ideal machine of every configuration and exports the machine for every "
                    "choice of the named deviations; each exported call / call sequence is executed on real "
                    "InputFile, InputValidation, Parameter, FormParameter, EnforcerPool and UIJson objects and after "
                    "every call the verdict (any exception = rejected) and the visible state (stored value, enabled "
                    "flag) must equal the exported outcome of the ideal machine; a rejected call must also leave "
                    "data and ui_json deep-equal to their state before the call",
        },
        "assumptions": [
            "bounds: one parameter under test per ui.json; 13 classic form kinds (incl. a data form under a group and a multiSelect object form), 14 parameter kinds, value tokens of "
            "spec/uijson/UiJsonValidate.tla; call sequences <= 3 (quick) / <= 4-5 (thorough) on one object",
            "switch space: group x groupOptional x group enabled x dependency x dependencyType x dependency state x "
            "dependency kind (boolean / optional form) x the checkbox's own enabled member x optional x enabled, canonical "
            "combinations (340 per kind)",
            "'optional' is enumerated as absent / true (an explicit optional=false is ambiguous between the "
            "documentation and utils.requires_value and is not enumerated); lists are enumerated only where their items are "
            "of an undeclared type, multiSelect forms under test are not enumerated; verdicts only (no exception classes)",
            "new API: None is admissible for type-restricted parameters (parameter_test.py pins it); the "
            "optional/enabled/dependency hierarchy exists only on the classic path and is checked there",
            "both tiers replay every exported call / path-cover sequence (a seeded sample is drawn only if a "
            "configuration is given a limit in PLAN; none is at present)",
        ],
    }


def replay(doc):
    item = doc["case"]
    v = _replay(item)
    return {"violations": v, "coverage": {"replayed": 1}}
