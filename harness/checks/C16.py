"""C16 - merging preserves every input's geometry and data.  Spec: spec/merge/Merge.tla"""
from __future__ import annotations

import numpy as np

from .. import funcheck
from ..tlc import MachineryError

CLASSES = {0: "Points", 2: "Curve", 3: "Surface"}
CFG = {
    "quick": [("MergePoints.cfg", 0, None), ("MergeCurveQuick.cfg", 2, 2000), ("MergeSurfaceQuick.cfg", 3, 1200),
              ("MergeCurve3.cfg", 2, 1200)],
    "thorough": [("MergePoints.cfg", 0, None), ("MergeCurveQuick.cfg", 2, None),
                 ("MergeSurfaceQuick.cfg", 3, None), ("MergeCurve3.cfg", 2, 20000)],
}


def coord(tok):
    return [float(tok), 0.5 * tok + 0.25, -2.0 * tok]


def val(tok):
    return float(tok) + 0.5


def _replay(item):
    case, arity = item[0], item[1]
    on_file = len(item) > 2 and item[2]
    if on_file:
        # every 6th case is merged in a real file and read back by a fresh Workspace after close
        import os
        from ..pool import scratch
        path = os.path.join(scratch(), f"merge_{os.getpid()}.geoh5")
        if os.path.exists(path):
            os.remove(path)
        try:
            return _replay_in(case, arity, path)
        finally:
            if os.path.exists(path):
                os.remove(path)
    return _replay_in(case, arity, None)


def _replay_in(case, arity, path):
    from geoh5py import Workspace
    from geoh5py import objects
    from geoh5py.shared.merging import CurveMerger, PointsMerger, SurfaceMerger
    cls = getattr(objects, CLASSES[arity])
    merger = {0: PointsMerger, 2: CurveMerger, 3: SurfaceMerger}[arity]
    viol = []

    def bad(sig, msg):
        viol.append({"signature": sig, "summary": msg, "case": {"arity": arity, "case": case}})

    with (Workspace.create(path) if path else Workspace()) as ws:
        types = {}
        ins = []
        for k, o in enumerate(case["ins"], 1):
            kw = {"vertices": np.array([coord(k * 10 + i) for i in range(o["nv"])]), "name": f"in{k}"}
            if arity:
                kw["cells"] = np.array(o["cells"], dtype="uint32")
            obj = cls.create(ws, **kw)
            for d in o["has"]:
                assoc = "VERTEX" if d % 2 == 1 else "CELL"
                n = o["nv"] if assoc == "VERTEX" else len(o["cells"])
                name = "ab"[(d - 1) // 2]
                et = types.get(d)
                if et is None:
                    et = {"primitive_type": "FLOAT", "name": f"type_{name}"}
                data = obj.add_data({name: {"values": np.array([val(k * 100 + d * 10 + i) for i in range(n)]),
                                            "association": assoc, "entity_type": et}})
                types[d] = data.entity_type
            ins.append(obj)
        before = [(o.vertices.copy(), None if o.cells is None else np.array(o.cells).copy(),
                   {(c.name, c.association.name): np.array(c.values).copy()
                    for c in o.children if hasattr(c, "values") and hasattr(c, "association")}) for o in ins]
        try:
            out = merger.merge_objects(ws, ins, name="merged")
        except Exception as exc:  # pylint: disable=broad-except
            bad(f"merge-raises:{type(exc).__name__}", f"{type(exc).__name__}: {exc}")
            return viol
        exp = case["out"]
        if type(out) is not cls:  # pylint: disable=unidiomatic-typecheck
            bad("class", f"merged object is {type(out).__name__}")
        ev = np.array([coord(t) for t in exp["verts"]])
        if out.vertices is None or out.vertices.shape != ev.shape or not np.array_equal(out.vertices, ev):
            bad("vertices", f"merged vertices differ: got {None if out.vertices is None else out.vertices.tolist()}")
            return viol
        if arity:
            got = np.array(out.cells)
            if got.shape != (len(exp["cells"]), arity):
                bad("cells-shape", f"cells shape {got.shape} expected {(len(exp['cells']), arity)}")
            elif got.max() >= len(ev):
                bad("cells-out-of-range", f"cell index {got.max()} >= {len(ev)} vertices")
            else:
                want = ev[np.array(exp["cells"])]
                have = out.vertices[got.astype(int)]
                if not np.array_equal(want, have):
                    asb = case.get("asbuilt")
                    if asb is not None and asb != exp["cells"] and got.tolist() == asb:
                        # exactly the answer of the named deviation OffsetByMaxIndex of Merge.tla
                        bad("cells-offset-by-max-index", f"cells {got.tolist()} expected {exp['cells']}")
                    else:
                        bad("cells-join-other-coordinates", f"cells {got.tolist()} expected {exp['cells']}")
        present = [d + 1 for d, arr in enumerate(exp["data"]) if arr]
        got_data = {}
        for c in out.children:
            if hasattr(c, "association") and hasattr(c, "values") and c.values is not None:
                key = (c.name, c.association.name)
                if key in got_data:
                    bad("data-duplicate", f"two merged data {key}")
                got_data[key] = np.array(c.values, dtype=float)
        for d in present:
            key = ("ab"[(d - 1) // 2], "VERTEX" if d % 2 == 1 else "CELL")
            want = np.array([np.nan if t < 0 else val(t) for t in exp["data"][d - 1]])
            have = got_data.pop(key, None)
            if have is None:
                bad("data-missing", f"merged object lacks data {key}")
            elif have.shape != want.shape or not np.array_equal(have, want, equal_nan=True):
                bad("data-misplaced", f"data {key}: got {have.tolist()} expected {want.tolist()}")
        if got_data:
            bad("data-extra", f"unexpected merged data {sorted(got_data)}")
        if path:
            merged_uid = out.uid
            ws.close()
            with Workspace(path, mode="r") as ws2:
                re = ws2.get_entity(merged_uid)[0]
                if re is None:
                    bad("stored-merged-missing", "merged object not found after re-opening the file")
                else:
                    if not np.array_equal(re.vertices, ev):
                        bad("stored-vertices", "stored vertices of the merged object differ")
                    if arity and not np.array_equal(np.array(re.cells), np.array(out.cells)):
                        bad("stored-cells", "stored cells of the merged object differ from the live ones")
                    stored = {(c.name, c.association.name): np.array(c.values, dtype=float) for c in re.children
                              if hasattr(c, "association") and hasattr(c, "values") and c.values is not None}
                    for d in present:
                        key = ("ab"[(d - 1) // 2], "VERTEX" if d % 2 == 1 else "CELL")
                        want = np.array([np.nan if t < 0 else val(t) for t in exp["data"][d - 1]])
                        have = stored.get(key)
                        if have is None or have.shape != want.shape or not np.array_equal(have, want, equal_nan=True):
                            bad("stored-data-differs", f"data {key} read back from the file: "
                                f"{None if have is None else have.tolist()} expected {want.tolist()}")
            return viol
        for o, (v0, c0, d0) in zip(ins, before):
            same = np.array_equal(o.vertices, v0) and (c0 is None or np.array_equal(np.array(o.cells), c0))
            now = {(c.name, c.association.name): np.array(c.values)
                   for c in o.children if hasattr(c, "values") and hasattr(c, "association")}
            same = same and now.keys() == d0.keys() and all(np.array_equal(now[k], d0[k], equal_nan=True) for k in d0)
            if not same:
                bad("input-changed", f"input {o.name} was modified by the merge")
    return viol


# ---------------------------------------------------------------------- drape models (spec/merge/MergeDrape.tla)
DRAPE_CFG = {"quick": [("MergeDrape2.cfg", 700), ("MergeDrape3.cfg", 300)],
             "thorough": [("MergeDrape2.cfg", None), ("MergeDrape3.cfg", None)]}


def _bottom(b):
    k, c, j = b
    if k == 0:                      # ghost cell: no thickness, its bottom is the top of the ghost prism (c = position token)
        return coord(c)[2]
    return coord(k * 10 + c)[2] - 1.5 * (j + 1)


def _replay_drape(item):
    case, on_file = item
    import os
    from geoh5py import Workspace
    from geoh5py.objects import DrapeModel
    from geoh5py.shared.merging import DrapeModelMerger
    from ..pool import scratch
    viol = []

    def bad(sig, msg):
        viol.append({"signature": sig, "summary": msg, "case": {"drape": True, "case": case}})

    path = None
    if on_file:
        path = os.path.join(scratch(), f"merge_drape_{os.getpid()}.geoh5")
        if os.path.exists(path):
            os.remove(path)
    try:
        ws = Workspace.create(path) if path else Workspace()
        ins = []
        types = {}
        for k, o in enumerate(case["ins"], 1):
            prisms, layers, first = [], [], 0
            for c, nl in enumerate(o["nl"]):
                prisms.append(coord(k * 10 + c) + [first, nl])
                for j in range(nl):
                    layers.append([c, j, _bottom((k, c, j))])
                first += nl
            obj = DrapeModel.create(ws, name=f"in{k}", layers=np.array(layers, dtype=float), prisms=np.array(prisms, dtype=float))
            for d in o["has"]:
                name = "ab"[d - 1]
                et = types.get(d) or {"primitive_type": "FLOAT", "name": f"type_{name}"}
                data = obj.add_data({name: {"values": np.array([val(k * 100 + d * 10 + i) for i in range(first)]),
                                            "association": "CELL", "entity_type": et}})
                types[d] = data.entity_type
            ins.append(obj)
        before = [(o.prisms.copy(), o.layers.copy(), {c.name: np.array(c.values).copy() for c in o.children if hasattr(c, "values")})
                  for o in ins]
        try:
            out = DrapeModelMerger.merge_objects(ws, ins, name="merged")
        except Exception as exc:  # pylint: disable=broad-except
            bad(f"merge-raises:{type(exc).__name__}", f"{type(exc).__name__}: {exc}")
            return viol
        exp = case["out"]
        want_p = np.array([coord(p["pos"]) + [p["first"], p["count"]] for p in exp["prisms"]], dtype=float)
        want_l = np.array([[ly["prism"], ly["k"], _bottom(ly["bottom"])] for ly in exp["layers"]], dtype=float)
        present = [d + 1 for d, arr in enumerate(exp["data"]) if arr]

        def compare(obj, tag):
            if obj.prisms is None or obj.prisms.shape != want_p.shape or not np.allclose(obj.prisms, want_p):
                bad(tag + "drape-prisms", f"merged prisms {None if obj.prisms is None else obj.prisms.tolist()} expected {want_p.tolist()}")
                return
            if obj.layers is None or obj.layers.shape != want_l.shape or not np.allclose(obj.layers, want_l):
                bad(tag + "drape-layers", f"merged layers {None if obj.layers is None else obj.layers.tolist()} expected {want_l.tolist()}")
                return
            got = {c.name: np.array(c.values, dtype=float) for c in obj.children
                   if hasattr(c, "association") and hasattr(c, "values") and c.values is not None}
            for d in present:
                name = "ab"[d - 1]
                want = np.array([np.nan if t < 0 else val(t) for t in exp["data"][d - 1]])
                have = got.pop(name, None)
                if have is None:
                    bad(tag + "data-missing", f"merged drape model lacks data {name}")
                elif have.shape != want.shape or not np.array_equal(have, want, equal_nan=True):
                    packed = np.array([np.nan if t < 0 else val(t) for t in case["packed"][d - 1]])
                    sig = "drape-data-packed" if have.shape == packed.shape and np.array_equal(have, packed, equal_nan=True) \
                        else "data-misplaced"
                    bad(tag + sig, f"data {name}: got {have.tolist()} expected {want.tolist()}")
            if got:
                bad(tag + "data-extra", f"unexpected merged data {sorted(got)}")

        compare(out, "")
        for o, (p0, l0, d0) in zip(ins, before):
            now = {c.name: np.array(c.values) for c in o.children if hasattr(c, "values")}
            if not (np.array_equal(o.prisms, p0) and np.array_equal(o.layers, l0) and now.keys() == d0.keys()
                    and all(np.array_equal(now[k], d0[k], equal_nan=True) for k in d0)):
                bad("input-changed", f"input {o.name} was modified by the merge")
        if path and not viol:
            uid = out.uid
            ws.close()
            with Workspace(path, mode="r") as ws2:
                re = ws2.get_entity(uid)[0]
                if re is None:
                    bad("stored-merged-missing", "merged drape model not found after re-opening the file")
                else:
                    compare(re, "stored-")
        return viol
    finally:
        try:
            ws.close()
        except Exception:  # pylint: disable=broad-except
            pass
        if path and os.path.exists(path):
            os.remove(path)


def run(tier, seed):
    states = trans = 0
    total_cases = replayed = 0
    samples = []
    viol = []
    exhaustive = True
    per_cfg = {}
    for cfg, arity, limit in CFG[tier]:
        res, cases = funcheck.enumerate_cases("merge", "Merge", cfg, workers=1)
        states += res.distinct
        trans += res.generated
        chosen, full = funcheck.sample(cases, limit, seed)
        exhaustive = exhaustive and full
        v, wall = funcheck.replay_all(_replay, [(c, arity, i % 6 == 0) for i, c in enumerate(chosen)])
        viol += v
        total_cases += len(cases)
        replayed += len(chosen)
        per_cfg[cfg] = {"cases_enumerated_by_tlc": len(cases), "replayed": len(chosen), "replay_wall_s": round(wall, 1)}
        samples.append({"cfg": cfg, "class": CLASSES[arity], "case": chosen[len(chosen) // 2]})
    for cfg, limit in DRAPE_CFG[tier]:
        res, cases = funcheck.enumerate_cases("merge", "MergeDrape", cfg, workers=1)
        states += res.distinct
        trans += res.generated
        chosen, full = funcheck.sample(cases, limit, seed)
        exhaustive = exhaustive and full
        v, wall = funcheck.replay_all(_replay_drape, [(c, i % 2 == 0) for i, c in enumerate(chosen)])
        viol += v
        total_cases += len(cases)
        replayed += len(chosen)
        per_cfg[cfg] = {"cases_enumerated_by_tlc": len(cases), "replayed": len(chosen), "replay_wall_s": round(wall, 1)}
        samples.append({"cfg": cfg, "class": "DrapeModel", "case": chosen[len(chosen) // 2]})
    neg = funcheck.expect_violation("merge", "Merge", "MergeAsBuilt.cfg", "CellsJoinSameCoords")
    neg2 = funcheck.expect_violation("merge", "MergeDrape", "MergeDrapePacked.cfg", "DataFollows")
    if replayed < 100:
        raise MachineryError("too few cases replayed")
    return {
        "level": "model_checking",
        "violations": viol,
        "coverage": {
            "states": states, "transitions": trans, "traces_validated_against_impl": replayed,
            "samples": samples, "cases_enumerated": total_cases, "exhaustive": exhaustive,
            "per_config": per_cfg,
            "negative_control": f"Deviations={{OffsetByMaxIndex}} violates CellsJoinSameCoords ({neg.violated}); "
                                f"MergeDrape with Deviations={{PackedData}} violates DataFollows ({neg2.violated})",
            "rule": "TLC enumerates every input list within the constants of each cfg and checks "
                    "VerticesInOrder, CellsJoinSameCoords, DataFollows, InputsUnchanged on the spec's Merged(); "
                    "each replayed case builds the inputs with geoh5py, runs the real merger and compares "
                    "vertices, cell coordinates, per-key data arrays and input immutability",
        },
        "assumptions": [
            "bounds: see cfg files in spec/merge (2-3 inputs, <=3(4) vertices, <=2 cells, <=2(4) data keys)",
            "float data only (NumericData)",
            "drape models (spec/merge/MergeDrape.tla): 2-3 inputs of 2-3 prisms with 1-2 layers each, <=2 CELL data keys; prisms, "
            "layers (ghost prisms included) and data compared; every 2nd case merged in a real file and read back",
            "every 6th replayed case is merged in a real file and the merged object is read back by a fresh Workspace",
            "quick tier replays a seeded sample of the enumerated cases; thorough replays all of the 2-input spaces",
        ],
    }


def replay(doc):
    if doc["case"].get("drape"):
        return {"violations": _replay_drape((doc["case"]["case"], True)), "coverage": {"replayed": 1}}
    v = _replay((doc["case"]["case"], doc["case"]["arity"]))
    return {"violations": v, "coverage": {"replayed": 1}}
