"""C17 - derived geometry follows the format's indexing conventions.

Four engines, all under spec/derived:
  GridIndex.tla      function style : block model / 2-D grid / octree-record centres (exact rationals)
  OctreeRefine.tla   function style : default octree cells tile the base grid, #centres = #cells
  CurveParts.tla     function style : cells from part labels, parts from cells
  CentroidCache.tla  state machine  : every geometry setter x ReadCentroids (the history half)
Every expected value compared below was printed by TLC (CASE / ST / TR lines).
"""
from __future__ import annotations

import json
import os
import random
import sys
import time
from concurrent.futures import ThreadPoolExecutor

import numpy as np

from .. import funcheck, graph, tlc
from ..tlc import MachineryError

SPEC_DIR = "derived"
TOL = 1e-9

# signatures of the named deviations of the specs (emitted only when the implementation's answer equals the
# deviation's prediction printed by TLC)
SIG_NO_ORIGIN = "centroids-indexerror-without-origin"          # GridIndex/OctreeRefine/CentroidCache: DefaultOriginRaises
SIG_DRAPE_STALE = "drape-centroids-stale-after-setter"         # CentroidCache: DrapeSettersKeepCache
SIG_PARTS_ISOLATED = "parts-isolated-vertex-joins-part-zero"   # CurveParts: ScanLeavesIsolatedInPartZero
SIG_PARTS_FIRST = "parts-before-vertices-ignored"              # CurveParts: ChainAllVertices as built for create(parts=, vertices=)
SIG_RECOUNT = "octree-default-cells-ignore-count-change"       # OctreeRefine: CountSetterKeepsDefaultCells
SIG_REL_FIRST = "block-centres-relative-to-first-delimiter"    # GridIndex: RelFirstDelimiter (only with Starts # {1})

# ---------------------------------------------------------------------------------------------- tiers
GRID_CFG = {
    # (cfg, replay limit)
    "quick": [("GridIndexBlockQuick.cfg", None), ("GridIndexGrid2DQuick.cfg", None), ("GridIndexOctreeQuick.cfg", None)],
    "thorough": [("GridIndexBlockTwo.cfg", None), ("GridIndexBlockFull.cfg", 20000), ("GridIndexGrid2DFull.cfg", 20000),
                 ("GridIndexOctreeFull.cfg", None)],
}
FILE_SAMPLE = {"quick": 100, "thorough": 1500}      # cases per GridIndex cfg replayed once more through a file
REFINE_CFG = {"quick": "OctreeRefineQuick.cfg", "thorough": "OctreeRefineFull.cfg"}
CURVE_CFG = {"quick": "CurvePartsQuick.cfg", "thorough": "CurvePartsFull.cfg"}
CURVE_EDIT_CFG = {"quick": "CurveEditQuick.cfg", "thorough": "CurveEditFull.cfg"}
CURVE_STORE_CFG = {"quick": "CurveStoreQuick.cfg", "thorough": "CurveStoreFull.cfg"}
RECOUNT_CFG = {"quick": "OctreeRecountQuick.cfg", "thorough": "OctreeRecountFull.cfg"}
READONLY_STATES = {"quick": 40, "thorough": 400}     # parameter states per class probed in a read-only workspace
CACHE_KINDS = ["Grid2D", "Block", "Octree", "Drape"]
CACHE_SCOPE = {"quick": 1, "thorough": 2}
NEG_CONTROLS = [
    # (module, cfg, invariant/property that TLC must report)
    ("GridIndex", "GridIndexNegOrder.cfg", "BlockIndexFormula"),
    ("GridIndex", "GridIndexNegClockwise.cfg", "UAxisCounterclockwise"),
    ("GridIndex", "GridIndexAsBuilt.cfg", "CountMatches"),
    ("OctreeRefine", "OctreeRefineNegStep.cfg", "TilesExactlyOnce"),
    ("OctreeRefine", "OctreeRefineAsBuilt.cfg", "CountMatches"),
    ("CurveParts", "CurvePartsNegChain.cfg", "JoinConsecutiveSamePartOnly"),
    ("CurveParts", "CurvePartsAsBuilt.cfg", "PartsAgreeWithConnectivity"),
    ("CurveParts", "CurveEditNegKeeps.cfg", "PartsAgreeAfterEdit"),
    ("CurveStore", "CurveStoreNegLazy.cfg", "StoredFollowsLive"),
    ("OctreeRefine", "OctreeRecountAsBuilt.cfg", "TilesAfterRecount"),
    ("CentroidCache", "CentroidCacheNegReadOnly.cfg", "CacheCoherent"),
    ("CentroidCache", "CentroidCacheNegRotation.cfg", "CacheCoherent"),
    ("CentroidCache", "CentroidCacheNegCount.cfg", "CacheCoherent"),
    ("CentroidCache", "CentroidCacheAsBuiltOrigin.cfg", "ReadIsCurrent"),
    ("CentroidCache", "CentroidCacheAsBuiltDrape.cfg", "CacheCoherent"),
]


# ---------------------------------------------------------------------------------------------- helpers
def rat(x):
    return x[0] / x[1]


def vec(v):
    return [rat(c) for c in v]


def pts(seq):
    return np.array([vec(v) for v in seq], dtype=float).reshape(-1, 3)


def degrees(cs):
    """(cos, sin) as rationals -> angle in degrees handed to the API."""
    return float(np.degrees(np.arctan2(rat(cs[1]), rat(cs[0]))))


def close(a, b):
    a = np.asarray(a, dtype=float)
    b = np.asarray(b, dtype=float)
    return a.shape == b.shape and bool(np.all(np.abs(a - b) <= TOL))


def first_diff(a, b):
    a = np.asarray(a, dtype=float)
    b = np.asarray(b, dtype=float)
    bad = np.where(np.any(np.abs(a - b) > TOL, axis=1))[0]
    i = int(bad[0])
    return f"centre {i}: got {a[i].tolist()} expected {b[i].tolist()} ({len(bad)} of {len(a)} differ)"


def canon(cases):
    """TLC runs with several workers print cases in a varying order: sort them, so that seeded samples are stable."""
    return sorted(cases, key=lambda c: json.dumps(c, sort_keys=True))


def quiet_close(ws):
    """Workspace.close() shells out to h5repack, which is not installed here: keep the shell's complaint off stderr."""
    sys.stderr.flush()
    saved = os.dup(2)
    devnull = os.open(os.devnull, os.O_WRONLY)
    try:
        os.dup2(devnull, 2)
        ws.close()
    finally:
        os.dup2(saved, 2)
        os.close(saved)
        os.close(devnull)


def origin_of(obj):
    return np.array(np.asarray(obj.origin).tolist(), dtype=float).ravel()


def read_centroids(obj):
    """-> ("ok", array) | ("raise", class name, text).  Any exception is an outcome."""
    try:
        val = obj.centroids
    except Exception as exc:  # pylint: disable=broad-except
        return ("raise", type(exc).__name__, str(exc)[:200])
    if val is None:
        return ("none",)
    return ("ok", np.array(val, dtype=float))


def judge_centroids(kind, got, n_cells, expect_n, ideal, asb_err, asb_cent, stale_sig, bad0):
    """Common verdict for one centroid read.  Returns the list of signatures emitted.
    ideal = array from TLC; asb_err / asb_cent = what the as-built deviations predict (None if identical)."""
    sigs = []

    def bad(sig, msg):
        sigs.append(sig)
        bad0(sig, msg)

    _judge_centroids(kind, got, n_cells, expect_n, ideal, asb_err, asb_cent, stale_sig, bad)
    return sigs


def _judge_centroids(kind, got, n_cells, expect_n, ideal, asb_err, asb_cent, stale_sig, bad):
    if got[0] == "raise":
        if asb_err is not None and got[1] == asb_err:
            bad(SIG_NO_ORIGIN, f"{kind}.centroids raises {got[1]} ({got[2]}) although {expect_n} cells are defined "
                               f"(no origin was given; default origin is not a structured array)")
        else:
            bad(f"{kind}-centroids-raise:{got[1]}", f"{kind}.centroids raises {got[1]}: {got[2]}")
        return
    if got[0] == "none":
        bad(f"{kind}-centroids-none", f"{kind}.centroids is None although {expect_n} cells are defined")
        return
    arr = got[1]
    if n_cells != expect_n:
        bad(f"{kind}-n-cells", f"n_cells = {n_cells}, the format defines {expect_n}")
    if arr.ndim != 2 or arr.shape[1] != 3 or arr.shape[0] != expect_n:
        if asb_cent is not None and arr.shape == asb_cent.shape and close(arr, asb_cent) and stale_sig:
            bad(stale_sig, f"{kind}.centroids has {arr.shape[0]} rows for {expect_n} cells: the centres cached before the "
                           f"last setter are returned")
        else:
            bad(f"{kind}-centroid-count", f"centroids shape {arr.shape}, expected ({expect_n}, 3)")
        return
    if close(arr, ideal):
        return
    if asb_cent is not None and not close(asb_cent, ideal) and close(arr, asb_cent) and stale_sig:
        bad(stale_sig, f"{kind}.centroids: {first_diff(arr, ideal)}; equals the prediction of the as-built deviation")
    else:
        bad(f"{kind}-centroid-position", f"{kind}.centroids: {first_diff(arr, ideal)}")


# ---------------------------------------------------------------------------------------------- engine 1: GridIndex
def _make_grid_object(ws, case):
    from geoh5py.objects import BlockModel, Grid2D, Octree
    inp = case["inp"]
    kind = inp["kind"]
    kw = {}
    if inp["hasO"]:
        kw["origin"] = vec(case["origin"])
    kw["rotation"] = degrees(case["rot"])
    if kind == "block":
        return BlockModel.create(ws, u_cell_delimiters=np.array(inp["ud"], dtype=float),
                                 v_cell_delimiters=np.array(inp["vd"], dtype=float),
                                 z_cell_delimiters=np.array(inp["zd"], dtype=float), **kw)
    sizes = [rat(s) for s in case["sizes"]]
    if kind == "grid2d":
        if inp["vert"]:
            kw["vertical"] = True
        else:
            kw["dip"] = degrees(case["dip"])
        return Grid2D.create(ws, u_count=inp["nu"], v_count=inp["nv"], u_cell_size=sizes[0], v_cell_size=sizes[1], **kw)
    return Octree.create(ws, u_count=8, v_count=8, w_count=8, u_cell_size=sizes[0], v_cell_size=sizes[1],
                         w_cell_size=sizes[2], octree_cells=np.array(case["recs"], dtype=int), **kw)


def _replay_grid(case):
    from geoh5py import Workspace
    viol = []
    kind = case["inp"]["kind"]

    def bad(sig, msg):
        viol.append({"signature": sig, "summary": msg, "case": {"engine": "grid", "case": case}})

    with Workspace() as ws:
        try:
            obj = _make_grid_object(ws, case)
        except Exception as exc:  # pylint: disable=broad-except
            bad(f"{kind}-create-raises:{type(exc).__name__}", f"creation refused: {type(exc).__name__}: {exc}")
            return viol
        exp = case["out"]
        ideal = pts(exp["cent"])
        asb = case["asbuilt"]
        asb_err = asb["err"] if asb["err"] != "none" else None
        asb_cent = pts(asb["cent"]) if asb["err"] == "none" else None
        got = read_centroids(obj)
        try:
            n_cells = obj.n_cells
        except Exception as exc:  # pylint: disable=broad-except
            n_cells = f"raises {type(exc).__name__}"
        judge_centroids(kind, got, n_cells, exp["n"], ideal, asb_err, asb_cent,
                        SIG_REL_FIRST if kind == "block" else None, bad)
    return viol


def _replay_grid_file(case):
    """Same case through a file: create, close, reopen read-only, read the centres of the stored object (delimiters,
    octree records and attributes then come back through fetch_array_attribute / the attribute map)."""
    import uuid as _uuid
    from geoh5py import Workspace
    from ..pool import scratch
    viol = []
    kind = case["inp"]["kind"]

    def bad(sig, msg):
        viol.append({"signature": sig, "summary": msg, "case": {"engine": "grid-file", "case": case}})

    path = os.path.join(scratch(), f"c17_{_uuid.uuid4().hex}.geoh5")
    try:
        try:
            ws = Workspace.create(path)
            uid = _make_grid_object(ws, case).uid
            quiet_close(ws)
        except Exception as exc:  # pylint: disable=broad-except
            bad(f"{kind}-create-raises:{type(exc).__name__}", f"creation in a file refused: {type(exc).__name__}: {exc}")
            return viol
        with Workspace(path, mode="r") as ws2:
            found = ws2.get_entity(uid)
            if not found or found[0] is None:
                bad(f"{kind}-reloaded-missing", "object not found after reopening the file")
                return viol
            obj = found[0]
            got = read_centroids(obj)
            try:
                n_cells = obj.n_cells
            except Exception as exc:  # pylint: disable=broad-except
                n_cells = f"raises {type(exc).__name__}"
            judge_centroids(f"{kind}-reloaded", got, n_cells, case["out"]["n"], pts(case["out"]["cent"]), None, None, None, bad)
    finally:
        if os.path.exists(path):
            os.remove(path)
    return viol


# ---------------------------------------------------------------------------------------------- engine 2: OctreeRefine
def _replay_refine(case):
    from geoh5py import Workspace
    from geoh5py.objects import Octree
    viol = []

    def bad(sig, msg):
        viol.append({"signature": sig, "summary": msg, "case": {"engine": "refine", "case": case}})

    inp = case["inp"]
    sizes = [rat(s) for s in case["sizes"]]
    kw = {"origin": vec(case["origin"])} if inp["hasO"] else {}
    with Workspace() as ws:
        try:
            obj = Octree.create(ws, u_count=inp["nu"], v_count=inp["nv"], w_count=inp["nw"], u_cell_size=sizes[0],
                                v_cell_size=sizes[1], w_cell_size=sizes[2], rotation=degrees(case["rot"]), **kw)
            cells = [tuple(int(x) for x in rec) for rec in np.asarray(obj.octree_cells).tolist()]
        except Exception as exc:  # pylint: disable=broad-except
            bad(f"octree-default-cells-raise:{type(exc).__name__}", f"{type(exc).__name__}: {exc}")
            return viol
        want = [tuple(rec) for rec in case["out"]["cells"]]
        if sorted(cells) != sorted(want):
            bad("octree-default-cells", f"default octree cells for ({inp['nu']},{inp['nv']},{inp['nw']}) are "
                                        f"{funcheck.short(cells, 300)}; a tiling of the base grid is {funcheck.short(want, 300)}")
            return viol
        centre_of = {tuple(rec): vec(c) for rec, c in zip(case["out"]["cells"], case["out"]["cent"])}
        ideal = np.array([centre_of[rec] for rec in cells], dtype=float).reshape(-1, 3)   # in the implementation's cell order
        got = read_centroids(obj)
        asb_err = case["asbuilt"] if case["asbuilt"] != "same" else None
        judge_centroids("octree", got, obj.n_cells, len(want), ideal, asb_err, None, None, bad)
    return viol


def _replay_recount(case):
    """Default octree, then one base dimension is assigned: refused or re-refined, never cells of another grid."""
    from geoh5py import Workspace
    from geoh5py.objects import Octree
    viol = []

    def bad(sig, msg):
        viol.append({"signature": sig, "summary": msg, "case": {"engine": "recount", "case": case}})

    inp = case["inp"]
    sizes = [rat(s) for s in case["sizes"]]
    kw = {"origin": vec(case["origin"])} if inp["hasO"] else {}
    text = f"default octree ({inp['nu']},{inp['nv']},{inp['nw']}), {case['axis']} = {case['value']}"
    with Workspace() as ws:
        try:
            obj = Octree.create(ws, u_count=inp["nu"], v_count=inp["nv"], w_count=inp["nw"], u_cell_size=sizes[0],
                                v_cell_size=sizes[1], w_cell_size=sizes[2], **kw)
            before = sorted(tuple(int(x) for x in r) for r in np.asarray(obj.octree_cells).tolist())
        except Exception as exc:  # pylint: disable=broad-except
            bad(f"octree-default-cells-raise:{type(exc).__name__}", f"{text}: {type(exc).__name__}: {exc}")
            return viol
        if before != sorted(tuple(r) for r in case["cells"]):
            bad("octree-default-cells", f"{text}: cells before the change {before}")
            return viol
        try:
            setattr(obj, case["axis"], int(case["value"]))
        except Exception:  # pylint: disable=broad-except
            pass                                    # a refusal is one of the two accepted outcomes
        try:
            dims = [int(obj.u_count), int(obj.v_count), int(obj.w_count)]
            cells = sorted(tuple(int(x) for x in r) for r in np.asarray(obj.octree_cells).tolist())
            n_cent = len(obj.centroids)
        except Exception as exc:  # pylint: disable=broad-except
            bad(f"octree-recount-raises:{type(exc).__name__}", f"{text}: {type(exc).__name__}: {exc}")
            return viol
        if any(dims == o["dims"] and cells == sorted(tuple(r) for r in o["cells"]) for o in case["ok"]):
            if n_cent != len(cells):
                bad("octree-centroid-count", f"{text}: {n_cent} centres for {len(cells)} cells")
            return viol
        asb = case["asbuilt"]
        if dims == asb["dims"] and cells == sorted(tuple(r) for r in asb["cells"]):
            bad(SIG_RECOUNT, f"{text}: the octree now reports base dimensions {dims} but keeps the {len(cells)} default cells "
                             f"of the old dimensions {funcheck.short(cells, 200)}: they do not tile the base grid")
        else:
            bad("octree-recount", f"{text}: dimensions {dims}, cells {funcheck.short(cells, 300)}; accepted: "
                                  f"{funcheck.short(case['ok'], 400)}")
    return viol


# ---------------------------------------------------------------------------------------------- engine 3: CurveParts
# label l of the spec (1-based) -> value handed to the API.  Both maps are increasing: Curve.cells lists the parts in
# the order of their label values, and the scan of the as-built deviation depends on the order of the cells.
LABEL_MAPS = ([0, 1, 2, 3, 4], [3, 5, 11, 12, 40])


def _partition(labels):
    groups = {}
    for i, lab in enumerate(labels):
        groups.setdefault(int(lab), []).append(i)
    return sorted(groups.values())


def _judge_parts(obj, case, mode, bad):
    try:
        parts = np.asarray(obj.parts).tolist()
    except Exception as exc:  # pylint: disable=broad-except
        bad(f"parts-raise:{type(exc).__name__}", f"[{mode}] Curve.parts raises {type(exc).__name__}: {exc}")
        return
    n = len(case["labels"])
    if len(parts) != n:
        bad("parts-length", f"[{mode}] {len(parts)} part labels for {n} vertices")
        return
    got = _partition(parts)
    want = sorted(sorted(b) for b in case["parts"])
    if got == want:
        return
    asb = sorted(sorted(b) for b in case["asbuilt"])
    if asb != want and got == asb:
        bad(SIG_PARTS_ISOLATED, f"[{mode}] cells {case['cells']} on {n} vertices: parts {parts} put a vertex that lies on no "
                                f"segment into the part of the first chain; connected components are {want}")
    else:
        bad("parts-disagree-with-connectivity", f"[{mode}] cells {case['cells']} on {n} vertices: parts {parts} group the "
                                                f"vertices as {got}; connected components are {want}")


def _replay_curve(case):
    from geoh5py import Workspace
    from geoh5py.objects import Curve
    viol = []

    def bad(sig, msg):
        viol.append({"signature": sig, "summary": msg, "case": {"engine": "curve", "case": case}})

    n = len(case["labels"])
    verts = np.array([[float(i), 0.5 * i * i, -1.0 * i] for i in range(n)])
    want_cells = sorted(tuple(c) for c in case["cells"])
    with Workspace() as ws:
        # (a) create with parts -> read cells (and the parts derived from them: reading cells drops the given labels)
        for m, lmap in enumerate(LABEL_MAPS):
            mode = f"parts->cells map{m}"
            try:
                obj = Curve.create(ws, vertices=verts, parts=[lmap[lab - 1] for lab in case["labels"]])
                cells = obj.cells
                cells = [] if cells is None else np.asarray(cells).tolist()
            except Exception as exc:  # pylint: disable=broad-except
                bad(f"cells-from-parts-raise:{type(exc).__name__}", f"[{mode}] labels {case['labels']}: {type(exc).__name__}: {exc}")
                continue
            got = sorted((min(int(a), int(b)), max(int(a), int(b))) for a, b in cells)
            if got != want_cells:
                bad("cells-from-parts", f"[{mode}] labels {case['labels']}: cells {cells}; consecutive vertices of the same "
                                        f"part are {case['cells']}")
                continue
            _judge_parts(obj, case, mode, bad)
        # (a') the same labels handed over BEFORE the vertices (keyword order must not matter)
        mode = "parts before vertices"
        try:
            obj = Curve.create(ws, parts=[lab - 1 for lab in case["labels"]], vertices=verts)
            cells = obj.cells
            cells = [] if cells is None else np.asarray(cells).tolist()
            got = sorted((min(int(a), int(b)), max(int(a), int(b))) for a, b in cells)
            if got != want_cells:
                if got == sorted(tuple(c) for c in case["chain"]):
                    bad(SIG_PARTS_FIRST, f"[{mode}] Curve.create(parts={[lab - 1 for lab in case['labels']]}, vertices=...) "
                                         f"ignores the labels: cells {cells} join all vertices in sequence; consecutive "
                                         f"vertices of the same part are {case['cells']}")
                else:
                    bad("cells-from-parts", f"[{mode}] labels {case['labels']}: cells {cells}; expected {case['cells']}")
        except Exception as exc:  # pylint: disable=broad-except
            bad(f"cells-from-parts-raise:{type(exc).__name__}", f"[{mode}] labels {case['labels']}: {type(exc).__name__}: {exc}")
        # (b) create with the cells -> read parts
        if case["cells"]:
            mode = "cells->parts"
            try:
                obj = Curve.create(ws, vertices=verts, cells=np.array(case["cells"], dtype="uint32"))
            except Exception as exc:  # pylint: disable=broad-except
                bad(f"curve-create-raises:{type(exc).__name__}", f"[{mode}] {type(exc).__name__}: {exc}")
                return viol
            _judge_parts(obj, case, mode, bad)
    return viol


def _judge_partition(parts, n, want, sig, text, bad):
    if len(parts) != n:
        bad("parts-length", f"{text}: {len(parts)} part labels for {n} vertices")
        return False
    got = _partition(parts)
    if got != want:
        bad(sig, f"{text}: parts {parts} group the vertices as {got}; connected components are {want}")
        return False
    return True


def _replay_curve_edit(case):
    """History for curves: create, read cells and parts (the labels are then cached), remove cells / vertices,
    read cells and parts again.  Expected geometry and partitions before and after come from TLC (ExportEdit)."""
    from geoh5py import Workspace
    from geoh5py.objects import Curve
    viol = []

    def bad(sig, msg):
        viol.append({"signature": sig, "summary": msg, "case": {"engine": "curve-edit", "case": case}})

    n = len(case["labels"])
    verts = np.array([[float(i), 0.5 * i * i, -1.0 * i] for i in range(n)])
    op, idx = case["op"], sorted(case["idx"])
    want1 = sorted(sorted(b) for b in case["parts"])
    want2 = sorted(sorted(b) for b in case["parts2"])
    cells2 = sorted(tuple(c) for c in case["cells2"])
    modes = [("parts", {"parts": [lab - 1 for lab in case["labels"]]})]
    if case["cells"]:
        modes.append(("cells", {"cells": np.array(case["cells"], dtype="uint32")}))
    with Workspace() as ws:
        for mode, kw in modes:
            text = f"[created with {mode}] labels {case['labels']}, {op}({idx})"
            try:
                obj = Curve.create(ws, vertices=verts, **kw)
                cells = obj.cells
                cells = [] if cells is None else np.asarray(cells).tolist()
                parts = np.asarray(obj.parts).tolist()          # fills the cache of derived labels
            except Exception as exc:  # pylint: disable=broad-except
                bad(f"curve-create-raises:{type(exc).__name__}", f"{text}: {type(exc).__name__}: {exc}")
                continue
            if sorted((min(a, b), max(a, b)) for a, b in cells) != sorted(tuple(c) for c in case["cells"]):
                bad("cells-from-parts", f"{text}: cells {cells} before the edit, expected {case['cells']}")
                continue
            if not _judge_partition(parts, n, want1, "parts-disagree-with-connectivity", text + " before the edit", bad):
                continue
            try:
                getattr(obj, op)(list(idx))
                cells = obj.cells
                cells = [] if cells is None else np.asarray(cells).tolist()
                n_after = 0 if obj.vertices is None else int(np.asarray(obj.vertices).shape[0])
                parts = np.asarray(obj.parts).tolist()
            except Exception as exc:  # pylint: disable=broad-except
                bad(f"curve-{op}-raises:{type(exc).__name__}", f"{text}: {type(exc).__name__}: {exc}")
                continue
            if n_after != case["n2"] or sorted((min(a, b), max(a, b)) for a, b in cells) != cells2:
                bad(f"curve-{op}-geometry", f"{text}: {n_after} vertices, cells {cells}; expected {case['n2']} vertices, "
                                            f"cells {case['cells2']}")
                continue
            _judge_partition(parts, case["n2"], want2, f"parts-disagree-with-connectivity-after-{op}",
                             text + f": cells are now {cells}", bad)
    return viol


# ---------------------------------------------------------------------------------------------- engine 3b: CurveStore
def _pairs(cells):
    return sorted((min(int(a), int(b)), max(int(a), int(b))) for a, b in cells)


def _store_walks(res, tier, seed):
    """CurveStore graph -> walks covering every transition, and the same walks with a Reopen after every action that
    changes the geometry (followed on the exported graph)."""
    g = tlc.build_graph(res.lines)
    init = graph.split_init(res.lines)
    if not init or not g.edges:
        raise MachineryError("CurveStore: empty export")
    succ = {(src, lab["act"], json.dumps(lab["arg"])): idx for idx, (src, _d, lab) in enumerate(g.edges)}
    paths, unreachable = _long_cover(g.edges, init, max_len=25)
    if unreachable:
        raise MachineryError(f"CurveStore: {unreachable} transitions not reachable")

    def follow(start, labels, reopen):
        cur, steps = start, []
        for act, arg in labels:
            idx = succ.get((cur, act, arg))
            if idx is None:
                break                    # (RemoveCells index no longer valid after an inserted Reopen cannot happen: Reopen keeps the state)
            _, cur, lab = g.edges[idx]
            steps.append([lab, g.states[cur]])
            if reopen and act in ("SetParts", "RemoveCells"):
                _, cur, lab = g.edges[succ[(cur, "Reopen", "[]")]]
                steps.append([lab, g.states[cur]])
        if not steps or steps[-1][0]["act"] != "Reopen":
            _, cur, lab = g.edges[succ[(cur, "Reopen", "[]")]]
            steps.append([lab, g.states[cur]])
        return steps

    walks = []
    for path in paths:
        start = g.edges[path[0]][0]
        labels = [(g.edges[i][2]["act"], json.dumps(g.edges[i][2]["arg"])) for i in path]
        walks.append({"init": g.states[start], "steps": follow(start, labels, False)})
        walks.append({"init": g.states[start], "steps": follow(start, labels, True)})
    n_then_reopen = sum(1 for w in walks for a, b in zip(w["steps"], w["steps"][1:])
                        if a[0]["act"] == "SetParts" and b[0]["act"] == "Reopen")
    stats = {"states": len(g.states), "transitions": len(g.edges), "walks": len(walks),
             "steps": sum(len(w["steps"]) for w in walks), "setparts_then_reopen": n_then_reopen}
    return walks, stats


def _stored_cells(ws, uid):
    """The Cells dataset as it sits in the file (read through the workspace's own handle, not through the object)."""
    h5 = ws.geoh5
    base = list(h5)[0]
    group = h5[base]["Objects"]["{" + str(uid) + "}"]
    return [] if "Cells" not in group else group["Cells"][:].tolist()


def _replay_store_walk(item, shrink=True):
    import uuid as _uuid
    from geoh5py import Workspace
    from geoh5py.objects import Curve
    from ..pool import scratch
    viol = []
    done = []

    def bad(sig, msg):
        small = None
        if shrink and len(done) > 2:
            steps = item["steps"][:len(done)]
            for start in range(len(steps) - 1, 0, -1):
                if steps[start - 1][1]["pending"]:
                    continue
                cand = {"init": steps[start - 1][1], "steps": steps[start:]}
                found = [v for v in _replay_store_walk(cand, shrink=False) if v["signature"] == sig]
                if found:
                    small = found[0]
                    break
        viol.append(small or {"signature": sig, "summary": f"after {done}: {msg}", "case": {"engine": "store", "item": item}})

    st0 = item["init"]
    n = st0["n"]
    verts = np.array([[float(i), 0.5 * i * i, -1.0 * i] for i in range(n)])
    path = os.path.join(scratch(), f"c17_st_{_uuid.uuid4().hex}.geoh5")
    ws = None
    try:
        try:
            ws = Workspace.create(path)
            kw = {"cells": np.array(st0["live"], dtype="uint32")} if st0["live"] else {}
            obj = Curve.create(ws, vertices=verts, **kw)
            if not st0["live"]:
                obj.parts = list(range(n))         # every vertex its own part: no segments
            uid = obj.uid
        except Exception as exc:  # pylint: disable=broad-except
            bad(f"curve-create-raises:{type(exc).__name__}", f"{type(exc).__name__}: {exc}")
            return viol
        for label, st in item["steps"]:
            act = label["act"]
            try:
                if act == "SetParts":
                    done.append(f"parts={[lab - 1 for lab in label['arg']]}")
                    obj.parts = [lab - 1 for lab in label["arg"]]
                elif act == "RemoveCells":
                    done.append(f"remove_cells({sorted(label['arg'])})")
                    obj.remove_cells(sorted(label["arg"]))
                elif act == "ReadCells":
                    done.append("read cells")
                    cells = obj.cells
                    if _pairs([] if cells is None else np.asarray(cells).tolist()) != _pairs(label["cells"]):
                        bad("curve-live-cells", f"live cells {np.asarray(cells).tolist()}, expected {label['cells']}")
                        return viol
                elif act == "ReadParts":
                    done.append("read parts")
                    if _partition(np.asarray(obj.parts).tolist()) != sorted(sorted(b) for b in label["parts"]):
                        bad("parts-disagree-with-connectivity", f"live parts {np.asarray(obj.parts).tolist()}, components "
                                                                f"{label['parts']}")
                        return viol
                elif act == "Reopen":
                    done.append("close, reopen")
                    quiet_close(ws)
                    ws = Workspace(path, mode="r+")
                    obj = ws.get_entity(uid)[0]
                    cells = obj.cells
                    cells = [] if cells is None else np.asarray(cells).tolist()
                    if _pairs(cells) != _pairs(label["cells"]):
                        bad("curve-cells-after-reopen", f"the re-opened curve has segments {cells}; before closing the curve "
                                                        f"was {label['cells']}")
                        return viol
                    if _partition(np.asarray(obj.parts).tolist()) != sorted(sorted(b) for b in label["parts"]):
                        bad("curve-parts-after-reopen", f"the re-opened curve has parts {np.asarray(obj.parts).tolist()}; "
                                                        f"components {label['parts']}")
                        return viol
                else:
                    raise MachineryError(f"unknown action {act}")
            except MachineryError:
                raise
            except Exception as exc:  # pylint: disable=broad-except
                bad(f"curve-{act}-raises:{type(exc).__name__}", f"{type(exc).__name__}: {exc}")
                return viol
            stored = _stored_cells(ws, uid)          # the stored view, after every action, without touching the object
            if _pairs(stored) != _pairs(st["stored"]):
                bad(f"curve-stored-cells-after-{act}", f"the file stores segments {stored}; the curve is {st['stored']}")
                return viol
    finally:
        try:
            if ws is not None:
                quiet_close(ws)
        except Exception:  # pylint: disable=broad-except
            pass
        if os.path.exists(path):
            os.remove(path)
    return viol


# ---------------------------------------------------------------------------------------------- engine 4: CentroidCache
def _api_value(name, val):
    if name == "origin":
        return vec(val)
    if name in ("rotation", "dip"):
        return degrees(val)
    if name == "vertical":
        return bool(val)
    if name.endswith("_cell_size"):
        return float(rat(val))
    if name.endswith("_count"):
        return int(val)
    if name.endswith("_delimiters"):
        return np.array(val, dtype=float)
    if name == "octree_cells":
        return np.array(val, dtype=int)
    if name == "octree_cells_records":      # the other branch of the setter: an array of (I, J, K, NCells) records
        return np.array([tuple(r) for r in val], dtype=[("I", "<i4"), ("J", "<i4"), ("K", "<i4"), ("NCells", "<i4")])
    if name in ("layers", "prisms"):
        return np.array(val, dtype=float)
    raise MachineryError(f"unknown setter {name}")


def _create_cached(ws, kind, st):
    from geoh5py.objects import BlockModel, DrapeModel, Grid2D, Octree
    val = st["val"]
    kw = {k: _api_value(k, v) for k, v in val.items() if k not in ("origin", "vertical")}
    if val.get("vertical"):                 # only when a walk is shrunk: initial states are never vertical
        kw.pop("dip")
        kw["vertical"] = True
    if kind != "Drape" and st["has_origin"]:
        kw["origin"] = _api_value("origin", val["origin"])
    cls = {"Grid2D": Grid2D, "Block": BlockModel, "Octree": Octree, "Drape": DrapeModel}[kind]
    return cls.create(ws, **kw)


def _angle_ok(deg, cs):
    rad = np.deg2rad(float(deg))
    return abs(np.cos(rad) - rat(cs[0])) <= 1e-12 and abs(np.sin(rad) - rat(cs[1])) <= 1e-12


def _state_mismatch(obj, st):
    """Compare the getters of the real object with the concrete parameter values of the TLC state."""
    out = []
    for name, want in st["val"].items():
        try:
            got = getattr(obj, name)
            if name == "origin":
                ok = close(origin_of(obj), vec(want))
            elif name in ("rotation", "dip"):
                ok = _angle_ok(got, want)
            elif name == "vertical":
                ok = bool(got) == bool(want)
            elif name.endswith("_cell_size"):
                ok = got is not None and abs(float(got) - rat(want)) <= 1e-12
            elif name.endswith("_count"):
                ok = got is not None and int(got) == int(want)
            elif name.endswith("_delimiters"):
                ok = got is not None and close(np.asarray(got, dtype=float), np.array(want, dtype=float))
            elif name == "octree_cells":
                ok = got is not None and [tuple(int(x) for x in r) for r in np.asarray(got).tolist()] == [tuple(r) for r in want]
            else:  # layers, prisms
                ok = got is not None and close(np.asarray(got, dtype=float), np.array(want, dtype=float))
        except Exception as exc:  # pylint: disable=broad-except
            ok, got = False, f"raises {type(exc).__name__}: {exc}"
        if not ok:
            out.append((name, f"{name} reads {str(got)[:120]}, expected {funcheck.short(want, 120)}"))
    try:
        n_cells = obj.n_cells
    except Exception as exc:  # pylint: disable=broad-except
        n_cells = f"raises {type(exc).__name__}"
    if st["consistent"] and n_cells != st["n"]:
        out.append(("n_cells", f"n_cells = {n_cells}, expected {st['n']}"))
    return out


def _shrink_walk(item, upto, sig):
    """Shortest suffix of the walk that still shows `sig` on a fresh object created in the state the suffix starts from."""
    steps = item["steps"][:upto + 1]
    for start in range(upto, 0, -1):
        cand = {"kind": item["kind"], "init": steps[start - 1][1], "steps": steps[start:]}
        found = [v for v in _replay_walk(cand, shrink=False) if v["signature"] == sig]
        if found:
            return found[0]
    return None


def _replay_walk(item, shrink=True):
    """item = {"kind", "init": state json, "steps": [[label json, target state json], ...]}"""
    from geoh5py import Workspace
    kind = item["kind"]
    viol = []
    done = []

    def bad(sig, msg):
        small = None
        if shrink and sig not in (SIG_NO_ORIGIN, SIG_DRAPE_STALE) and len(done) > 2:
            small = _shrink_walk(item, len(done) - 1, sig)      # done[i] is step i
        viol.append(small or {"signature": sig, "summary": f"after {done}: {msg}",
                              "case": {"engine": "cache", "item": item}})

    with Workspace() as ws:
        try:
            obj = _create_cached(ws, kind, item["init"])
        except Exception as exc:  # pylint: disable=broad-except
            bad(f"{kind}-create-raises:{type(exc).__name__}", f"creation refused: {type(exc).__name__}: {exc}")
            return viol
        mism = _state_mismatch(obj, item["init"])
        if mism:
            bad(f"{kind}-param-state:{mism[0][0]}", "; ".join(m for _, m in mism))
            return viol
        for label, st in item["steps"]:
            act = label["act"]
            if act == "Read":
                done.append("centroids")
                got = read_centroids(obj)
                ideal = pts(label["ideal"])
                asb_err = label["err"] if label["err"] != "none" else None
                asb_cent = pts(label["out"]) if label["err"] == "none" else None
                try:
                    n_cells = obj.n_cells
                except Exception as exc:  # pylint: disable=broad-except
                    n_cells = f"raises {type(exc).__name__}"
                sigs = judge_centroids(kind.lower(), got, n_cells, st["n"], ideal, asb_err, asb_cent,
                                       SIG_DRAPE_STALE if kind == "Drape" else None, bad)
                if any(sig not in (SIG_NO_ORIGIN, SIG_DRAPE_STALE) for sig in sigs):
                    return viol        # the implementation has left the exported graph: stop this walk
                # (a recognised as-built answer keeps the object on the exported as-built graph: go on)
            else:
                value = _api_value(act, label["val"])
                done.append(f"{act}={funcheck.short(label['val'], 60)}")
                try:
                    setattr(obj, "octree_cells" if act == "octree_cells_records" else act, value)
                except Exception as exc:  # pylint: disable=broad-except
                    bad(f"{kind.lower()}-setter-raises:{act}", f"setter refused: {type(exc).__name__}: {exc}")
                    return viol
            mism = _state_mismatch(obj, st)
            if mism:
                bad(f"{kind.lower()}-param-state:{mism[0][0]}", "; ".join(m for _, m in mism))
                return viol
    return viol


def _long_cover(edges, init, max_len):
    """Cover every edge with few long walks from the initial states (graph.path_cover covers the same edges with many
    short paths, which costs ten replayed steps per transition on these dense graphs): start at the state nearest to
    the initial states that still has an uncovered out-edge, keep following uncovered edges, and when stuck step to
    a neighbour that has some.  Returns (paths of edge indices, number of unreachable edges)."""
    from collections import deque
    out = {}
    for idx, (src, _dst, _lab) in enumerate(edges):
        out.setdefault(src, []).append(idx)
    dist, pred = {}, {}
    queue = deque()
    for s0 in init:
        dist[s0] = 0
        queue.append(s0)
    while queue:
        u = queue.popleft()
        for idx in out.get(u, []):
            v = edges[idx][1]
            if v not in dist:
                dist[v] = dist[u] + 1
                pred[v] = idx
                queue.append(v)
    unreachable = sum(1 for src, _d, _l in edges if src not in dist)
    unc = {s0: list(reversed(idxs)) for s0, idxs in out.items() if s0 in dist}
    order = sorted(unc, key=lambda s0: dist[s0])        # stable: ties keep the export order
    ptr = 0
    paths = []
    while True:
        while ptr < len(order) and not unc[order[ptr]]:
            ptr += 1
        if ptr == len(order):
            break
        cur = order[ptr]
        prefix = []
        node = cur
        while dist[node] > 0:
            prefix.append(pred[node])
            node = edges[pred[node]][0]
        path = prefix[::-1]
        while len(path) < max_len or not path:
            if unc.get(cur):
                idx = unc[cur].pop()
            else:
                idx = next((e for e in out.get(cur, []) if unc.get(edges[e][1])), None)
                if idx is None:      # two steps away
                    two = next(((e, f) for e in out.get(cur, []) for f in out.get(edges[e][1], [])
                                if unc.get(edges[f][1])), None)
                    if two is None:
                        break
                    path.append(two[0])
                    idx = two[1]
            path.append(idx)
            cur = edges[idx][1]
        paths.append(path)
    return paths, unreachable


def _walks_from_graph(kind, res, tier, seed):
    """Action sequences over the exported graph: (1) walks covering every transition, each walk closed by a read;
    (2) the same paths with a read after every setter (every setter is then taken from a state that holds cached
    centres and is followed by a read); (3) thorough: seeded random walks."""
    g = tlc.build_graph(res.lines)
    init = graph.split_init(res.lines)
    if not init or not g.edges:
        raise MachineryError(f"CentroidCache {kind}: empty export")
    succ = {}
    for idx, (src, _dst, lab) in enumerate(g.edges):
        succ[(src, lab["act"], json.dumps(lab["arg"]))] = idx
    rng = random.Random(seed)
    paths, unreachable = _long_cover(g.edges, init, max_len=40)
    if unreachable:
        raise MachineryError(f"CentroidCache {kind}: {unreachable} transitions not reachable from the initial states")

    def follow(start, labels, read_after_setter):
        cur = start
        steps = []
        for act, arg in labels:
            idx = succ.get((cur, act, arg))
            if idx is None:
                raise MachineryError(f"CentroidCache {kind}: action {act}({arg}) not enabled where the cover needs it")
            _, cur, lab = g.edges[idx]
            steps.append([lab, g.states[cur]])
            if read_after_setter and act != "Read":
                ridx = succ.get((cur, "Read", "0"))
                if ridx is not None:
                    _, cur, lab = g.edges[ridx]
                    steps.append([lab, g.states[cur]])
        ridx = succ.get((cur, "Read", "0"))
        if ridx is not None and (not steps or steps[-1][0]["act"] != "Read"):
            _, cur, lab = g.edges[ridx]
            steps.append([lab, g.states[cur]])
        return steps

    walks = []
    for path in paths:
        start = g.edges[path[0]][0]
        labels = [(g.edges[i][2]["act"], json.dumps(g.edges[i][2]["arg"])) for i in path]
        walks.append({"kind": kind, "init": g.states[start], "steps": follow(start, labels, False)})
        walks.append({"kind": kind, "init": g.states[start], "steps": follow(start, labels, True)})
    n_random = 0
    if tier == "thorough":
        out = {}
        for idx, (src, _d, _l) in enumerate(g.edges):
            out.setdefault(src, []).append(idx)
        for _ in range(3000):
            cur = start = rng.choice(sorted(init))
            steps = []
            for _ in range(12):
                idx = rng.choice(out[cur])
                _, cur, lab = g.edges[idx]
                steps.append([lab, g.states[cur]])
            walks.append({"kind": kind, "init": g.states[start], "steps": steps})
            n_random += 1
    n_reads = sum(1 for w in walks for lab, _ in w["steps"] if lab["act"] == "Read")
    n_setter_then_read = sum(1 for w in walks for a, b in zip(w["steps"], w["steps"][1:])
                             if a[0]["act"] != "Read" and b[0]["act"] == "Read")
    stats = {"states": len(g.states), "transitions": len(g.edges), "cover_paths": len(paths), "walks": len(walks),
             "random_walks": n_random, "reads": n_reads, "setter_then_read": n_setter_then_read,
             "steps": sum(len(w["steps"]) for w in walks)}
    return walks, stats


def _readonly_items(kind, res, limit, seed):
    """Mode "r" graph -> one item per parameter state: the object is written to a file in that state; every probe
    re-opens the file read-only, reads the centres (cache filled), calls one setter (its write-through is refused)
    and reads again.  A setter has two successors in the graph (value stored / not stored): the harness follows the
    one whose parameters the object reports, so nothing is demanded about where the setter fails."""
    g = tlc.build_graph(res.lines)
    init = set(graph.split_init(res.lines))
    out = {}
    for src, dst, lab in g.edges:
        out.setdefault(src, []).append((dst, lab))

    def read_edge(key):
        return next(((d, lab) for d, lab in out.get(key, []) if lab["act"] == "Read"), None)

    items = []
    for key, st in g.states.items():
        if st["cached"] or not st["consistent"]:
            continue
        first = read_edge(key)
        if first is None:
            continue
        probes = {}
        for dst, lab in out.get(first[0], []):
            if lab["act"] == "Read":
                continue
            pk = (lab["act"], json.dumps(lab["arg"]))
            probe = probes.setdefault(pk, {"act": lab["act"], "val": lab["val"], "alts": []})
            nxt = read_edge(dst)
            probe["alts"].append({"state": g.states[dst], "stored": lab["stored"], "read": nxt[1] if nxt else None})
        for probe in probes.values():
            probe["alts"].sort(key=lambda a: not a["stored"])
        items.append({"kind": kind, "init": st, "is_init": key in init, "read0": first[1],
                      "probes": [probes[k] for k in sorted(probes)]})
    items = canon(items)
    chosen, full = funcheck.sample(items, limit, seed, always=lambda it: it["is_init"])
    return chosen, full, len(items)


def _replay_readonly(item):
    import uuid as _uuid
    from geoh5py import Workspace
    from ..pool import scratch
    kind = item["kind"]
    low = kind.lower()
    viol = []
    path = os.path.join(scratch(), f"c17_ro_{_uuid.uuid4().hex}.geoh5")
    try:
        try:
            ws = Workspace.create(path)
            uid = _create_cached(ws, kind, item["init"]).uid
            quiet_close(ws)
        except Exception as exc:  # pylint: disable=broad-except
            return [{"signature": "__skipped__", "summary": f"state cannot be created directly: {type(exc).__name__}", "case": {}}]
        for probe in item["probes"]:
            one = {"kind": kind, "init": item["init"], "is_init": item["is_init"], "read0": item["read0"], "probes": [probe]}
            done = ["reopen mode=r"]

            def bad(sig, msg, one=one, done=done):
                viol.append({"signature": sig, "summary": f"after {done}: {msg}", "case": {"engine": "readonly", "item": one}})

            with Workspace(path, mode="r") as ws2:
                found = ws2.get_entity(uid)
                obj = found[0] if found else None
                if obj is None or _state_mismatch(obj, item["init"]):
                    return [{"signature": "__skipped__", "summary": "state does not survive the reload", "case": {}}]
                done.append("centroids")
                sigs = judge_centroids(low, read_centroids(obj), obj.n_cells, item["init"]["n"], pts(item["read0"]["ideal"]),
                                       None, None, None, bad)
                if sigs:
                    continue
                raised = "accepted"
                try:
                    setattr(obj, "octree_cells" if probe["act"] == "octree_cells_records" else probe["act"],
                            _api_value(probe["act"], probe["val"]))
                except Exception as exc:  # pylint: disable=broad-except
                    raised = f"refused with {type(exc).__name__}"
                done.append(f"{probe['act']}={funcheck.short(probe['val'], 60)} ({raised})")
                alt = next((a for a in probe["alts"] if not _state_mismatch(obj, a["state"])), None)
                if alt is None:
                    mism = _state_mismatch(obj, probe["alts"][0]["state"])
                    bad(f"{low}-readonly-setter-state", "the parameters are neither the old nor the new ones: "
                        + "; ".join(m for _, m in mism))
                    continue
                if alt["read"] is None:
                    continue
                done.append("centroids")
                try:
                    n_cells = obj.n_cells
                except Exception as exc:  # pylint: disable=broad-except
                    n_cells = f"raises {type(exc).__name__}"
                judge_centroids(low, read_centroids(obj), n_cells, alt["state"]["n"], pts(alt["read"]["ideal"]),
                                None, None, None, bad)
    finally:
        if os.path.exists(path):
            os.remove(path)
    return viol


# ---------------------------------------------------------------------------------------------- TLC jobs
def _tlc_workers():
    procs = int(os.environ.get("VERIF_PROCS", "16"))
    return max(1, min(4, procs // 4))


def _run_jobs(jobs):
    """jobs: list of (key, module, cfg, workers, expect) run a few at a time; expect = None | invariant name."""
    par = max(1, min(4, int(os.environ.get("VERIF_PROCS", "16")) // 4))

    def one(job):
        key, module, cfg, workers, expect = job
        try:
            res = tlc.run_tlc(SPEC_DIR, module, cfg, workers=workers, heap="4g", keep_lines=expect is None, timeout=3000)
        except MachineryError as exc:
            if "did not finish cleanly" not in str(exc):
                raise
            # a JVM that dies without a verdict (killed from outside, start-up failure) is retried once
            res = tlc.run_tlc(SPEC_DIR, module, cfg, workers=workers, heap="4g", keep_lines=expect is None, timeout=3000)
        if expect is None:
            if not res.ok:
                raise MachineryError(f"TLC reports {res.violated} on {module}/{cfg}: the specification violates its own "
                                     f"invariants\n{res.raw_tail[-1500:]}")
        elif expect not in res.violated:
            raise MachineryError(f"negative control {cfg}: expected {expect} to be violated, TLC reports {res.violated}")
        return key, res

    with ThreadPoolExecutor(max_workers=par) as pool:
        return dict(pool.map(one, jobs))


def engines_selected():
    sel = os.environ.get("VERIF_C17_ENGINES")
    return set(sel.split(",")) if sel else {"grid", "refine", "curve", "cache"}


def run(tier, seed):
    t_start = time.time()
    sel = engines_selected()
    wk = _tlc_workers()
    jobs = []
    if "grid" in sel:
        jobs += [(("grid", cfg), "GridIndex", cfg, wk, None) for cfg, _ in GRID_CFG[tier]]
    if "refine" in sel:
        jobs.append((("refine", REFINE_CFG[tier]), "OctreeRefine", REFINE_CFG[tier], wk, None))
        jobs.append((("refine", RECOUNT_CFG[tier]), "OctreeRefine", RECOUNT_CFG[tier], wk, None))
    if "curve" in sel:
        jobs.append((("curve", CURVE_CFG[tier]), "CurveParts", CURVE_CFG[tier], wk, None))
        jobs.append((("curve", CURVE_EDIT_CFG[tier]), "CurveParts", CURVE_EDIT_CFG[tier], wk, None))
        jobs.append((("curve-store", CURVE_STORE_CFG[tier]), "CurveStore", CURVE_STORE_CFG[tier], 1, None))
    if "cache" in sel:
        for kind in CACHE_KINDS:
            sc = CACHE_SCOPE[tier]
            jobs.append((("cache-ideal", kind), "CentroidCache", f"CentroidCache{kind}Ideal{sc}.cfg", wk, None))
            jobs.append((("cache-graph", kind), "CentroidCache", f"CentroidCache{kind}Export{sc}.cfg", 1, None))
            jobs.append((("cache-ro", kind), "CentroidCache", f"CentroidCache{kind}ReadOnly{sc}.cfg", 1, None))
    prefix = {"grid": ("GridIndex",), "refine": ("OctreeRefine",), "curve": ("CurveParts", "CurveStore"),
              "cache": ("CentroidCache",)}
    negs = [n for n in NEG_CONTROLS if any(n[0] in prefix[e] for e in sel)]
    jobs += [(("neg", cfg), module, cfg, 2, expect) for module, cfg, expect in negs]
    # longest first
    jobs.sort(key=lambda j: 0 if "Full" in j[2] or "Two" in j[2] or j[2].endswith("2.cfg") else 1)
    results = _run_jobs(jobs)
    tlc_wall = time.time() - t_start

    viol = []
    states = trans = replayed = 0
    per = {}
    samples = []
    exhaustive = True
    for key, res in results.items():
        if key[0] in ("grid", "refine", "curve", "curve-store", "cache-ideal", "cache-ro"):
            states += res.distinct
            trans += res.generated

    def function_engine(name, key, fn, limit):
        nonlocal replayed, exhaustive, viol
        res = results[key]
        cases = canon([obj for t, _, obj in res.lines if t == "CASE"])
        if not cases:
            raise MachineryError(f"no CASE lines exported by {key}")
        chosen, full = funcheck.sample(cases, limit, seed)
        exhaustive = exhaustive and full
        v, wall = funcheck.replay_all(fn, chosen)
        viol += v
        replayed += len(chosen)
        per[key[1]] = {"engine": name, "tlc_states": res.distinct, "tlc_generated": res.generated,
                       "tlc_wall_s": round(res.wall_s, 1), "cases_enumerated_by_tlc": len(cases),
                       "replayed": len(chosen), "replay_wall_s": round(wall, 1), "violations": len(v)}
        return cases, chosen

    if "grid" in sel:
        seen_kinds = set()
        no_origin = 0
        for cfg, limit in GRID_CFG[tier]:
            cases, chosen = function_engine("GridIndex", ("grid", cfg), _replay_grid, limit)
            seen_kinds |= {c["inp"]["kind"] for c in chosen}
            no_origin += sum(1 for c in chosen if not c["inp"]["hasO"])
            # a seeded sub-sample once more through a file (create, close, reopen, read)
            sub, _ = funcheck.sample(chosen, FILE_SAMPLE[tier], seed + 1)
            v, wall = funcheck.replay_all(_replay_grid_file, sub)
            viol += v
            replayed += len(sub)
            per[cfg].update({"replayed_through_file": len(sub), "file_replay_wall_s": round(wall, 1),
                             "file_violations": len(v)})
            mid = chosen[len(chosen) // 2]
            samples.append({"engine": "GridIndex", "cfg": cfg, "inp": mid["inp"], "n": mid["out"]["n"],
                            "first_centre": mid["out"]["cent"][0]})
        if seen_kinds != {"block", "grid2d", "octree"} or no_origin == 0:
            raise MachineryError(f"GridIndex: classes exercised {seen_kinds}, cases without origin {no_origin}")
    if "refine" in sel:
        cases, chosen = function_engine("OctreeRefine", ("refine", REFINE_CFG[tier]), _replay_refine, None)
        dims = {(c["inp"]["nu"], c["inp"]["nv"], c["inp"]["nw"]) for c in chosen}
        per[REFINE_CFG[tier]]["dimension_triples"] = len(dims)
        mid = chosen[len(chosen) // 2]
        samples.append({"engine": "OctreeRefine", "inp": mid["inp"], "cells": mid["out"]["cells"][:4]})
        cases, chosen = function_engine("OctreeRefine", ("refine", RECOUNT_CFG[tier]), _replay_recount, None)
        if {c["axis"] for c in chosen} != {"u_count", "v_count", "w_count"}:
            raise MachineryError("OctreeRefine recount: not every axis exercised")
        mid = chosen[len(chosen) // 2]
        samples.append({"engine": "OctreeRefine-recount", "inp": mid["inp"], "axis": mid["axis"], "value": mid["value"]})
    if "curve" in sel:
        cases, chosen = function_engine("CurveParts", ("curve", CURVE_CFG[tier]), _replay_curve, None)
        if not any(len(b) == 1 for c in chosen for b in c["parts"]) or not any(len(c["labels"]) >= 5 for c in chosen):
            raise MachineryError("CurveParts: no singleton part or no 5-vertex labeling generated")
        mid = chosen[len(chosen) // 2]
        samples.append({"engine": "CurveParts", "case": mid})
        cases, chosen = function_engine("CurveParts", ("curve", CURVE_EDIT_CFG[tier]), _replay_curve_edit, None)
        ops = {c["op"] for c in chosen}
        if ops != {"remove_cells", "remove_vertices"} or not any(len(c["parts2"]) > len(c["parts"]) for c in chosen):
            raise MachineryError(f"CurveParts edits: operations {ops}, or no edit that splits a part")
        mid = chosen[len(chosen) // 2]
        samples.append({"engine": "CurveParts-edit", "case": mid})
        res = results[("curve-store", CURVE_STORE_CFG[tier])]
        walks, stats = _store_walks(res, tier, seed)
        if stats["setparts_then_reopen"] == 0:
            raise MachineryError("CurveStore: no SetParts followed directly by a Reopen")
        v, wall = funcheck.replay_all(_replay_store_walk, walks)
        viol += v
        replayed += len(walks)
        stats.update({"engine": "CurveStore", "tlc_states": res.distinct, "tlc_generated": res.generated,
                      "replay_wall_s": round(wall, 1), "violations": len(v)})
        per[CURVE_STORE_CFG[tier]] = stats
        w = walks[len(walks) // 2]
        samples.append({"engine": "CurveStore", "walk": [lab["act"] + ("=" + funcheck.short(lab["arg"], 30) if lab["arg"] else "")
                                                         for lab, _ in w["steps"]]})
    if "cache" in sel:
        for kind in CACHE_KINDS:
            res = results[("cache-graph", kind)]
            ideal = results[("cache-ideal", kind)]
            walks, stats = _walks_from_graph(kind, res, tier, seed)
            if stats["setter_then_read"] == 0:
                raise MachineryError(f"CentroidCache {kind}: no setter followed by a read")
            v, wall = funcheck.replay_all(_replay_walk, walks)
            viol += v
            replayed += len(walks)
            stats.update({"engine": "CentroidCache", "ideal_states": ideal.distinct, "ideal_generated": ideal.generated,
                          "replay_wall_s": round(wall, 1), "violations": len(v)})
            per[f"CentroidCache{kind}"] = stats
            ro = results[("cache-ro", kind)]
            items, full, total = _readonly_items(kind, ro, READONLY_STATES[tier], seed)
            exhaustive = exhaustive and full
            v, wall = funcheck.replay_all(_replay_readonly, items)
            skipped = sum(1 for x in v if x["signature"] == "__skipped__")
            v = [x for x in v if x["signature"] != "__skipped__"]
            n_probes = sum(len(it["probes"]) for it in items)
            if skipped >= len(items) or n_probes == 0:
                raise MachineryError(f"CentroidCache {kind}: no parameter state could be probed in a read-only workspace")
            viol += v
            replayed += len(items) - skipped
            per[f"CentroidCache{kind}ReadOnly"] = {
                "engine": "CentroidCache mode r", "tlc_states": ro.distinct, "tlc_generated": ro.generated,
                "parameter_states": total, "states_probed": len(items) - skipped, "states_not_creatable": skipped,
                "setter_probes": n_probes, "replay_wall_s": round(wall, 1), "violations": len(v)}
            w = walks[len(walks) // 2]
            samples.append({"engine": "CentroidCache", "kind": kind,
                            "walk": [lab["act"] + ("" if lab["act"] == "Read" else "=" + funcheck.short(lab["arg"], 30))
                                     for lab, _ in w["steps"]]})
    viol.sort(key=lambda v: len(json.dumps(v["case"], default=str)))    # report the smallest instance of each signature
    if replayed < 50 * len(sel):
        raise MachineryError("too few cases replayed")
    return {
        "level": "model_checking",
        "violations": viol,
        "coverage": {
            "states": states, "transitions": trans, "traces_validated_against_impl": replayed,
            "samples": samples, "exhaustive": exhaustive, "per_config": per,
            "tlc_wall_s": round(tlc_wall, 1),
            "negative_controls": [f"{cfg}: TLC reports {expect}" for _m, cfg, expect in negs],
            "rule": "GridIndex/OctreeRefine/CurveParts: TLC enumerates every configuration of the cfg, checks the "
                    "format's index formulas, tiling, counting and connectivity invariants on the specified result and "
                    "prints it as exact rationals / integers; every (or a seeded sample of the) configuration is built with "
                    "geoh5py and centroids, n_cells, octree_cells, cells, parts are compared (1e-9). CentroidCache: TLC "
                    "explores every interleaving of geometry setters and reads over finite domains (CacheCoherent, "
                    "ReadIsCurrent), the graph is exported and every transition is replayed on a real object, with a read "
                    "after every setter; parameters and n_cells are compared after every step",
        },
        "assumptions": [
            "bounds: cfg files in spec/derived (block/grid <= 3 cells per axis, integer delimiters starting at 0, increasing "
            "or decreasing; rational cell sizes from SizeTab; 12 angles with rational sine and cosine; octree base "
            "dimensions 1..4 (quick) / 1..16 (thorough); curves of <= 5 (7) vertices with <= 3 labels)",
            "in-memory workspaces (Workspace()); a seeded sub-sample of the GridIndex cases is replayed once more through "
            "a file (create, close, reopen, read) - other engines are not",
            "angles are handed to the API in degrees (atan2 of the rational sine/cosine); comparison tolerance 1e-9",
            "the dip setter is not exercised while Vertical is on (the effective dip then depends on getter side effects)",
            "drape models are read only when layers and prisms describe the same layout",
        ],
    }


def replay(doc):
    case = doc["case"]
    eng = case["engine"]
    if eng == "grid":
        v = _replay_grid(case["case"])
    elif eng == "grid-file":
        v = _replay_grid_file(case["case"])
    elif eng == "refine":
        v = _replay_refine(case["case"])
    elif eng == "curve":
        v = _replay_curve(case["case"])
    elif eng == "cache":
        v = _replay_walk(case["item"])
    elif eng == "recount":
        v = _replay_recount(case["case"])
    elif eng == "store":
        v = _replay_store_walk(case["item"])
    elif eng == "curve-edit":
        v = _replay_curve_edit(case["case"])
    elif eng == "readonly":
        v = [x for x in _replay_readonly(case["item"]) if x["signature"] != "__skipped__"]
    else:
        raise MachineryError(f"unknown engine {eng}")
    return {"violations": v, "coverage": {"replayed": 1}}
