"""C03 - reflective binding of spec/writethrough/WriteThrough.tla to the geoh5py classes.

This module knows nothing about the state machine; it provides
  * discover()            every (target, assignable attribute) pair found by reflection, with the reason for every
                          attribute that is left out (never silently dropped);
  * Fixture(target)       builds ONE stored instance of the target class in a real file (created, closed), gives
                          `fetch(ws)` to get the live entity of any workspace opened on that file (or a copy) and
                          `raw(snap)` to find the node of the entity in an independent h5py snapshot;
  * domain(...)           2 further valid values per attribute, derived from the type of the current value
                          (override table for the special ones);
  * canon / same          value comparison modulo representation (list/tuple/array, numpy scalar types, float
                          tolerance, uuid / entity identity), never modulo content.
geoh5py is imported lazily (the working tree is chosen by ./check through sys.path)."""
from __future__ import annotations

import copy
import enum
import hashlib
import inspect
import math
import uuid

import numpy as np

# ----------------------------------------------------------------------------------------------------------------------
# attributes with a setter that are not "an attribute whose value a reader of the file sees" (reason is reported)
NOT_ATTRIBUTES = {
    "uid": "identity of the node (changing it is a move, not an attribute assignment; uniqueness is C06)",
    "on_file": "book-keeping flag of the live object, never meant to be stored",
    "parent": "tree relation (re-parenting is an operation of the core spec: C01/C02/C09)",
    "entity_type": "type link (hard link to the type node: C02/C06)",
    "workspace": "owner of a type object, not stored",
    "h5file": "path of the workspace file",
    "repack": "book-keeping flag of the live workspace",
}

# (a, b): assigning a legitimately changes b as well (documented derivation, both sides change together), so the two
# are never bound in the same window.  "*" = every class.
COUPLED = {
    ("Drillhole", "surveys", "end_of_hole"): "surveys setter sets end_of_hole to the last depth (drillhole.py:252)",
    ("*", "metadata", "coordinate_reference_system"): "coordinate_reference_system is a view of metadata (entity.py:128-160)",
    ("*", "cells", "parts"): "parts and cells are two views of the same connectivity (curve.py:62-170)",
    ("VisualParameters", "values", "colour"): "colour is a tag inside the xml held by values (visual_parameters.py:87-112)",
    ("FilenameData", "values", "file_name"): "file blob and its name are written together (filename_data.py:53-101)",
    ("Grid2D", "vertical", "dip"): "vertical = True forces dip = 90 (grid2d.py:389-400)",
    ("GeoImage", "image", "vertices"): "assigning an image resets the corner vertices (geo_image.py:347-409)",
    ("GeoImage", "image", "tag"): "tag is derived from the image",
    ("GeoImage", "dip", "vertices"): "dip/rotation are derived from and rewrite the corner vertices (geo_image.py:200-225, 470-495)",
    ("GeoImage", "rotation", "vertices"): "dip/rotation are derived from and rewrite the corner vertices",
    ("GeoImage", "dip", "rotation"): "both derived from the corner vertices",
}

# (flag, attribute): the flag is a permission that is naturally consulted when the attribute is written; the two share
# a window of their own (whole transition cover, so the attribute is assigned in every state of the flag) whatever their
# distance in the alphabetical order
GUARDED = [("modifiable", "values")]
# boolean flags (some read back from the file as the integers 0 / 1): their domain is {True, False}
FLAGS = {"modifiable", "vertical", "allow_delete", "allow_move", "allow_rename", "public", "visible", "partially_hidden",
         "hidden", "transparent_no_data", "allow_move_content", "allow_delete_content"}

# attributes of the EM / DC surveys that are views of the Metadata dictionary (base.py edit_em_metadata)
METADATA_VIEWS = {"channels", "unit", "input_type", "loop_radius", "receivers", "transmitters", "base_stations",
                  "tx_id_property", "crossline_offset", "inline_offset", "vertical_offset", "pitch", "roll", "yaw",
                  "relative_to_bearing", "timing_mark", "waveform", "current_electrodes", "potential_electrodes",
                  "coordinate_reference_system"}


def coupled(cls_name, a, b):
    for x, y in ((a, b), (b, a)):
        if (cls_name, x, y) in COUPLED or ("*", x, y) in COUPLED:
            return True
    if a == "metadata" and b in METADATA_VIEWS or b == "metadata" and a in METADATA_VIEWS:
        return True
    # two views of the same Metadata entry
    pairs = [{"timing_mark", "waveform"}, {"current_electrodes", "potential_electrodes"}]
    return {a, b} in pairs


# ----------------------------------------------------------------------------------------------------------------------
class Ref:
    """A value that is an entity of the workspace: carried as uid, resolved in the workspace in use."""

    def __init__(self, uid):
        self.uid = uuid.UUID(str(uid))

    def resolve(self, ws):
        found = ws.get_entity(self.uid)
        return found[0] if found else None

    def __repr__(self):
        return f"Ref({self.uid})"


class Skip(Exception):
    """Raised by a domain builder / fixture when something cannot be exercised; the text is reported."""


def _is_entity(v):
    return hasattr(v, "uid") and (hasattr(v, "workspace") or hasattr(v, "parent")) and not isinstance(v, Ref)


def canon(v):  # pylint: disable=too-many-return-statements,too-many-branches
    """Plain python structure representing the VALUE (not the representation)."""
    if v is None:
        return None
    if isinstance(v, Ref):
        return ("ref", str(v.uid))
    if isinstance(v, uuid.UUID):
        return ("uuid", str(v))
    if isinstance(v, enum.Enum):
        return ("enum", v.name)
    if isinstance(v, (bool, np.bool_)):
        return bool(v)
    if isinstance(v, (int, np.integer)):
        return int(v)
    if isinstance(v, (float, np.floating)):
        return float(v)
    if isinstance(v, bytes):
        try:
            return v.decode("utf-8")
        except UnicodeDecodeError:
            return ("bytes", hashlib.sha1(v).hexdigest())
    if isinstance(v, str):
        return str(v)  # numpy.str_ included
    if isinstance(v, np.ndarray):
        if v.dtype.names:
            return [[canon(x) for x in row] for row in v.reshape(-1).tolist()] if v.ndim else [canon(x) for x in v.tolist()]
        if v.ndim == 0:
            return canon(v.item())
        return [canon(x) for x in v.tolist()]
    if isinstance(v, np.void):
        return [canon(x) for x in v.tolist()]
    if isinstance(v, (list, tuple)):
        return [canon(x) for x in v]
    if isinstance(v, dict):
        return {"__dict__": {str(canon(k)) if not isinstance(k, str) else k: canon(x) for k, x in v.items()}}
    cname = type(v).__name__
    if cname == "ColorMap":  # table and name
        return ["cmap", canon(getattr(v, "name", None)), canon(getattr(v, "_values", None))]
    if cname == "ReferenceValueMap":
        return canon(dict(v.map))
    if cname.endswith("ImageFile") or cname == "Image" or (hasattr(v, "tobytes") and hasattr(v, "mode") and hasattr(v, "getpixel")):
        return ("image", tuple(v.size), v.mode, hashlib.sha1(v.tobytes()).hexdigest())
    if _is_entity(v):
        return ("ref", str(v.uid))
    return ("opaque", cname, repr(v)[:80])


def _num(x):
    return isinstance(x, (int, float)) and not isinstance(x, bool)


def same(a, b, rel=1e-9):  # pylint: disable=too-many-return-statements
    """Equality of canonical values. Numbers: int/float compared numerically with a relative tolerance of 1e-9
    (NaN equals NaN); bool equals 0/1; ("ref", u) equals ("uuid", u); everything else exact."""
    if a is None or b is None:
        return a is None and b is None
    if isinstance(a, bool) or isinstance(b, bool):
        if isinstance(a, bool) and isinstance(b, bool):
            return a == b
        other, flag = (b, a) if isinstance(a, bool) else (a, b)
        return _num(other) and other in (0, 1) and bool(other) == flag
    if _num(a) and _num(b):
        if isinstance(a, float) and math.isnan(a) or isinstance(b, float) and math.isnan(b):
            return isinstance(a, float) and isinstance(b, float) and math.isnan(a) and math.isnan(b)
        return a == b or math.isclose(a, b, rel_tol=rel, abs_tol=1e-12)
    if isinstance(a, tuple) and isinstance(b, tuple):
        if a and b and a[0] in ("ref", "uuid") and b[0] in ("ref", "uuid"):
            return a[1] == b[1]
        return a == b
    if isinstance(a, tuple) and a[0] in ("ref", "uuid") and isinstance(b, str):
        return a[1] == b.strip("{}").lower()
    if isinstance(b, tuple) and b[0] in ("ref", "uuid") and isinstance(a, str):
        return b[1] == a.strip("{}").lower()
    if isinstance(a, list) and isinstance(b, list):
        return len(a) == len(b) and all(same(x, y, rel) for x, y in zip(a, b))
    if isinstance(a, dict) and isinstance(b, dict):
        if a.keys() != b.keys():
            return False
        return all(same(a[k], b[k], rel) for k in a)
    if type(a) is not type(b):  # pylint: disable=unidiomatic-typecheck
        return False
    return a == b


def normalise(cls_name, attr, value):
    """attribute-specific normal form applied to BOTH sides of every comparison (never to one side only)"""
    if cls_name == "VisualParameters" and attr == "values" and isinstance(value, str) and value.lstrip().startswith("<"):
        # the getter returns the text as stored or, once the xml has been parsed (e.g. by reading .colour), the
        # re-serialised tree: equal XML documents, different white space (visual_parameters.py:55-66)
        import xml.etree.ElementTree as ET
        try:
            return ET.canonicalize(value, strip_text=True)
        except ET.ParseError:
            return value
    if attr == "color_map" and isinstance(value, dict) and "values" in value:
        return ["cmap", value.get("name", "geoh5py_custom.TBL"), canon(value["values"])]
    if attr == "color_map" and isinstance(value, np.ndarray):
        return ["cmap", "geoh5py_custom.TBL", canon(value)]
    if cls_name == "ColorMap" and attr == "values" and isinstance(value, np.ndarray) and value.ndim == 2 \
            and value.shape[0] == 5 and value.shape[1] != 5:
        return value.T  # getter (5, n) vs setter (n, 5)
    return value


def short(v, n=90):
    s = repr(canon(v)) if not isinstance(v, str) else repr(v)
    return s if len(s) <= n else s[:n] + "..."


# ----------------------------------------------------------------------------------------------------------------------
# discovery
def _setters(cls):
    out = {}
    for name in dir(cls):
        if name.startswith("_"):
            continue
        for k in cls.__mro__:
            if name in k.__dict__:
                p = k.__dict__[name]
                if isinstance(p, property) and p.fset is not None:
                    out[name] = f"{k.__module__.replace('geoh5py.', '')}.{k.__name__}"
                break
    return out


def _attribute_map(cls):
    m = {}
    for k in reversed(cls.__mro__):
        m.update(k.__dict__.get("_attribute_map", None) or {})
    return {key: val.split(":")[0].strip() for key, val in m.items()}


def _concrete(mod, base):
    out = []
    for n in sorted(dir(mod)):
        c = getattr(mod, n)
        if inspect.isclass(c) and issubclass(c, base) and not inspect.isabstract(c) and c.__module__.startswith("geoh5py"):
            out.append(c)
    return out


def discover():
    """-> list of targets {"kind", "cls", "variant", "attrs": [...], "left_out": {attr: reason}, "stored_as": {...}}
    kinds: object group data otype gtype dtype pg header"""
    from geoh5py import data, groups, objects
    from geoh5py.groups import PropertyGroup
    from geoh5py.shared.entity import Entity
    from geoh5py.shared.utils import KEY_MAP
    from geoh5py.workspace import Workspace
    array_fields = {k for k in KEY_MAP if k == k.lower()}
    targets = []

    def add(kind, cls, variant=None):
        setters = _setters(cls)
        amap = _attribute_map(cls)
        inv = {v: k for k, v in amap.items()}
        attrs, left, stored = [], {}, {}
        for a in sorted(setters):
            if a in NOT_ATTRIBUTES:
                left[a] = NOT_ATTRIBUTES[a]
                continue
            attrs.append(a)
            if a in inv:
                stored[a] = "attribute:" + inv[a]
            elif a in array_fields:
                stored[a] = "dataset:" + KEY_MAP[a]
            elif a in METADATA_VIEWS:
                stored[a] = "dataset:Metadata (view)"
            else:
                stored[a] = "other"
        if cls.__name__ == "FilenameData":
            # the Data dataset holds the file NAME, the blob lives in a dataset named after the file (h5_writer.py:809-838)
            stored["values"], stored["file_name"] = "other", "dataset:Data"
        if cls.__name__ == "CommentsData" or cls.__name__ == "VisualParameters":
            stored["values"] = "dataset:Data"
        targets.append({"kind": kind, "cls": cls.__name__, "variant": variant, "attrs": attrs, "left_out": left,
                        "stored_as": stored, "defined_in": {a: setters[a] for a in attrs}})

    for c in _concrete(objects, Entity):
        add("object", c)
    for c in _concrete(groups, Entity):
        add("group", c)
    for c in _concrete(data, Entity):
        add("data", c)
    add("otype", objects.ObjectType)
    add("gtype", groups.GroupType)
    add("dtype", data.DataType, "FLOAT")
    add("dtype", data.DataType, "REFERENCED")
    add("pg", PropertyGroup)
    add("header", Workspace)
    # value objects held by a data type: every class of geoh5py.data that is neither an entity nor a type but has
    # assignable properties (ColorMap, ReferenceValueMap)
    import importlib
    import pkgutil
    seen = set()
    for mod in sorted(m.name for m in pkgutil.iter_modules(data.__path__)):
        module = importlib.import_module(f"geoh5py.data.{mod}")
        for n in sorted(vars(module)):
            c = getattr(module, n)
            if not (inspect.isclass(c) and c.__module__ == module.__name__) or c in seen:
                continue
            seen.add(c)
            if issubclass(c, (Entity, enum.Enum, data.DataType)) or n.endswith("Constants") or not _setters(c):
                continue
            kind = {"ColorMap": "cmap", "ReferenceValueMap": "vmap"}.get(c.__name__)
            if kind:
                add(kind, c)
            else:
                targets.append({"kind": "valueobject", "cls": c.__name__, "variant": None, "attrs": sorted(_setters(c)),
                                "left_out": {}, "stored_as": {}, "defined_in": _setters(c)})
    # the same classes stored the other way: a drillhole of a DrillholeGroup and its data live in concatenated tables
    # (shared/concatenation): every attribute takes another write path (Concatenator.update_attributes)
    add("object", objects.Drillhole, "concatenated")
    add("data", data.TextData, "concatenated")
    add("data", data.FloatData, "concatenated")
    return targets


def target_name(t):
    return t["cls"] + (f"[{t['variant']}]" if t.get("variant") else "")


# ----------------------------------------------------------------------------------------------------------------------
# fixtures: one stored instance per target
V3 = np.array([[0.0, 0.0, 0.0], [1.0, 2.0, 3.0], [4.0, 1.0, -2.0]])
LOOP = np.array([[0, 1], [1, 2], [2, 0]], dtype="uint32")
V5 = np.array([[0.0, 0.0, 0.0], [1.0, 2.0, 3.0], [4.0, 1.0, -2.0], [5.0, 3.0, 0.5], [7.0, 2.0, 1.5]])
LINE = np.array([[0, 1], [1, 2], [2, 3], [3, 4]], dtype="uint32")


def _survey_pair(ws, objects, name):
    """receivers + transmitters classes of one EM survey family, linked."""
    rx_name = name.replace("Transmitters", "Receivers").replace("BaseStations", "Receivers")
    rx_cls = getattr(objects, rx_name)
    rx = rx_cls.create(ws, vertices=V5.copy(), name="rx")
    other = None
    proto = rx
    if name.startswith("Tipper"):
        other = objects.TipperBaseStations.create(ws, vertices=V5 + 10.0, name="base")
        rx.base_stations = other
        return rx, other
    tx_type = proto.default_transmitter_type
    if tx_type is not type(None):
        other = tx_type.create(ws, vertices=V5 + 10.0, name="tx")
        rx.transmitters = other
    return rx, other


def _object_kwargs(name):
    if name == "Surface" or name == "NeighbourhoodSurface":
        return {"vertices": np.vstack([V3, [[2.0, 2.0, 2.0]]]), "cells": np.array([[0, 1, 2], [1, 2, 3]], dtype="uint32")}
    if name == "Grid2D":
        return {"u_count": 3, "v_count": 2, "u_cell_size": 1.5, "v_cell_size": 2.5, "origin": [445000.0, 5500000.0, 300.0],
                "rotation": 30.0, "dip": 45.0}
    if name == "BlockModel":
        return {"u_cell_delimiters": np.array([0.0, 1, 2.5]), "v_cell_delimiters": np.array([0.0, 1.5]),
                "z_cell_delimiters": np.array([-2.0, -1, 0]), "origin": [445000.0, 5500000.0, 300.0], "rotation": 15.0}
    if name == "Octree":
        return {"u_count": 4, "v_count": 2, "w_count": 2, "origin": [445000.0, 5500000.0, 300.0], "rotation": 15.0,
                "u_cell_size": 1.5, "v_cell_size": 2.5, "w_cell_size": 3.5}
    if name == "Drillhole":
        return {"collar": [445000.0, 5500000.0, 300.0], "surveys": np.array([[0.0, 10.0, -80.0], [8.0, 20.0, -70.0]]),
                "end_of_hole": 8.0, "cost": 12.5, "planning": "Ongoing"}
    if name == "DrapeModel":
        return {"layers": np.array([[0, 0, -1.0], [0, 1, -2.0], [1, 0, -1.5], [1, 1, -2.5]]),
                "prisms": np.array([[0.0, 0.0, 0.0, 0, 2], [1.0, 0.5, 0.25, 2, 2]])}
    if name in ("Label", "NoTypeObject"):
        return {}
    if name in ("Curve", "AirborneMagnetics"):
        return {"vertices": V5.copy(), "cells": LINE.copy()}
    return {"vertices": V5.copy()}


class Fixture:  # pylint: disable=too-many-instance-attributes
    """Builds the stored instance; everything needed later is kept as uids (never live objects)."""

    def __init__(self, target, slim=False):
        self.slim = slim  # survey fixtures without the spare partners (windows that do not bind a partner attribute)
        self.target = target
        self.kind = target["kind"]
        self.cls = target["cls"]
        self.variant = target.get("variant")
        self.uid = None  # the entity (or owner of the type / property group)
        self.aux = {}  # named auxiliary uids usable by the domains
        self.kwargs = {}  # values given to the constructor (a domain can be derived from them when the getter shows None)

    # ------------------------------------------------------------------ build
    def build(self, ws):  # pylint: disable=too-many-branches,too-many-statements
        from geoh5py import data, groups, objects
        kind, name = self.kind, self.cls
        if kind == "header":
            return
        if self.variant == "concatenated":
            dg = groups.DrillholeGroup.create(ws, name="dg")
            dh = objects.Drillhole.create(ws, parent=dg, name="hole", collar=[445000.0, 5500000.0, 300.0],
                                          surveys=np.array([[0.0, 10.0, -80.0], [8.0, 20.0, -70.0]]))
            txt = dh.add_data({"litho": {"from-to": np.array([[0.0, 2.0], [2.0, 5.0]]), "values": np.array(["ovb", "sed"]),
                                         "type": "text"}})
            flt = dh.add_data({"assay": {"from-to": np.array([[0.0, 2.0], [2.0, 5.0]]), "values": np.array([1.5, 2.5])}})
            other = objects.Drillhole.create(ws, parent=dg, name="hole2", collar=[445010.0, 5500000.0, 300.0])
            other.add_data({"litho": {"from-to": np.array([[0.0, 1.0]]), "values": np.array(["grn"]), "type": "text"}})
            self.aux["group"] = dg.uid
            self.aux["hole"] = dh.uid
            ent = {"Drillhole": dh, "TextData": txt, "FloatData": flt}[name]
            if isinstance(ent, list):
                ent = ent[0]
            self.uid = ent.uid
            return
        if kind in ("cmap", "vmap"):
            holder = objects.Curve.create(ws, vertices=V3.copy(), cells=LOOP.copy(), name="holder")
            if kind == "vmap":
                ent = holder.add_data({"ref": {"values": np.array([1, 2, 1], dtype="int32"), "association": "VERTEX",
                                               "type": "referenced", "value_map": {1: "one", 2: "two"}}})
            else:
                ent = holder.add_data({"flt": {"values": np.array([1.0, 2.0, 3.0]), "association": "VERTEX"}})
                ent.entity_type.color_map = {"name": "regional.TBL", "values": np.core.records.fromarrays(
                    np.array([[0.0, 1.0], [0, 255], [10, 20], [30, 40], [255, 255]]),
                    names=["Value", "Red", "Green", "Blue", "Alpha"])}
            self.uid = ent.uid
            return
        if kind == "object":
            cls = getattr(objects, name)
            if hasattr(cls, "default_transmitter_type") and "EMSurvey" in "".join(k.__name__ for k in cls.__mro__):
                rx, other = _survey_pair(ws, objects, name)
                ent = rx if name.endswith("Receivers") else other
                if ent is None:
                    raise Skip(f"{name}: no complement class")
                self.aux["rx"] = rx.uid
                if other is not None:
                    self.aux["tx"] = other.uid
                # one spare partner per role for the entity-valued attributes (two-valued domain: the workspace is
                # re-read by a fresh reader after every step, so the fixture is kept small)
                if not self.slim:
                    sp_rx = type(rx).create(ws, vertices=V5 + 1, name="rx1")
                    self.aux["rx1"] = sp_rx.uid
                    if other is not None:
                        sp_tx = type(other).create(ws, vertices=V5 + 11.0, name="tx1")
                        self.aux["tx1"] = sp_tx.uid
                f = ent.add_data({"fdata": {"values": np.array([1.5, 2.5, 3.5, 4.5, 5.5]), "association": "VERTEX"}})
                self.aux["floatdata"] = f.uid
            elif name in ("CurrentElectrode", "PotentialElectrode"):
                cur = objects.CurrentElectrode.create(ws, vertices=V5.copy(), cells=LINE.copy(), name="cur")
                cur.add_default_ab_cell_id()
                pot = objects.PotentialElectrode.create(ws, vertices=V5 + 1.0, cells=LINE.copy(), name="pot")
                pot.ab_cell_id = np.array([1, 2, 3, 4], dtype="int32")
                pot.current_electrodes = cur
                ent = cur if name == "CurrentElectrode" else pot
                if not self.slim:
                    c2 = objects.CurrentElectrode.create(ws, vertices=V5 + 20.0, cells=LINE.copy(), name="cur1")
                    c2.add_default_ab_cell_id()
                    p2 = objects.PotentialElectrode.create(ws, vertices=V5 + 21.0, cells=LINE.copy(), name="pot1")
                    p2.ab_cell_id = np.array([1, 2, 3, 4], dtype="int32")
                    self.aux["cur1"] = c2.uid
                    self.aux["pot1"] = p2.uid
                self.aux["cur"] = cur.uid
                self.aux["pot"] = pot.uid
            elif name == "GeoImage":
                img = np.arange(4 * 5 * 3, dtype="uint8").reshape(4, 5, 3)
                ent = cls.create(ws, image=img, name="img")
            else:
                self.kwargs = _object_kwargs(name)
                ent = cls.create(ws, name="fixture", **_object_kwargs(name))
                if name == "Octree":
                    _ = ent.octree_cells
                    ws.save_entity(ent) if ent.on_file else None
            if ent is None:
                raise Skip(f"{name}.create returned None")
            # every object gets visual parameters + a metadata dictionary where the class allows a free one
            self.uid = ent.uid
            return
        if kind == "group":
            cls = getattr(groups, name)
            if name == "RootGroup":
                self.uid = ws.root.uid
                return
            kw = {}
            if name in ("UIJsonGroup", "SimPEGGroup"):
                kw["options"] = {"title": "t0", "n": 1}
            ent = cls.create(ws, name="fixture", **kw)
            if ent is None:
                raise Skip(f"{name}.create returned None (no type uid: the class cannot be instantiated through the API)")
            self.uid = ent.uid
            return
        parent_kw = {"vertices": V3.copy(), "cells": LOOP.copy(), "name": "holder"}
        if kind == "data":
            holder = objects.Curve.create(ws, **parent_kw)
            self.aux["holder"] = holder.uid
            ent = self._make_data(ws, holder, name)
            if ent is None:
                raise Skip(f"{name}: add_data returned None")
            if getattr(ent, "values", None) is not None and isinstance(ent.values, np.ndarray):
                self.kwargs["values"] = np.array(ent.values, copy=True)
            if type(ent).__name__ != name:
                raise Skip(f"{name}: the API built a {type(ent).__name__} instead")
            self.uid = ent.uid
            return
        if kind == "otype":
            ent = objects.Points.create(ws, vertices=V3.copy(), name="typed")
            self.uid = ent.uid
            return
        if kind == "gtype":
            ent = groups.ContainerGroup.create(ws, name="typed")
            self.uid = ent.uid
            return
        if kind == "dtype":
            holder = objects.Curve.create(ws, **parent_kw)
            if self.variant == "REFERENCED":
                ent = holder.add_data({"ref": {"values": np.array([1, 2, 1], dtype="int32"), "association": "VERTEX",
                                               "type": "referenced", "value_map": {1: "one", 2: "two"}}})
            else:
                ent = holder.add_data({"flt": {"values": np.array([1.0, 2.0, 3.0]), "association": "VERTEX"}})
                ent.entity_type.color_map = {"name": "regional.TBL", "values": np.core.records.fromarrays(
                    np.array([[0.0, 1.0], [0, 255], [10, 20], [30, 40], [255, 255]]),
                    names=["Value", "Red", "Green", "Blue", "Alpha"])}
            ent.entity_type.units = "m"
            ent.entity_type.number_of_bins = 50
            ent.entity_type.description = "a type"
            self.uid = ent.uid
            return
        if kind == "pg":
            holder = objects.Curve.create(ws, **parent_kw)
            d1 = holder.add_data({"d1": {"values": np.array([1.0, 2.0, 3.0]), "association": "VERTEX"}})
            d2 = holder.add_data({"d2": {"values": np.array([4.0, 5.0, 6.0]), "association": "VERTEX"}})
            pg = holder.add_data_to_group([d1, d2], "pg0")
            self.aux["holder"] = holder.uid
            self.aux["d1"], self.aux["d2"] = d1.uid, d2.uid
            self.uid = pg.uid
            return
        raise Skip(f"unknown kind {kind}")

    @staticmethod
    def _make_data(ws, holder, name):  # pylint: disable=too-many-return-statements
        from geoh5py import data
        if name == "FloatData":
            return holder.add_data({"d": {"values": np.array([1.0, 2.5, -3.0]), "association": "VERTEX"}})
        if name == "IntegerData":
            return holder.add_data({"d": {"values": np.array([1, 2, -3], dtype="int32"), "association": "VERTEX"}})
        if name == "BooleanData":
            return holder.add_data({"d": {"values": np.array([True, False, True]), "association": "VERTEX"}})
        if name == "TextData":
            return holder.add_data({"d": {"values": np.array(["a", "bé", "c"]), "association": "VERTEX"}})
        if name == "ReferencedData":
            return holder.add_data({"d": {"values": np.array([1, 2, 1], dtype="int32"), "association": "VERTEX",
                                          "type": "referenced", "value_map": {1: "one", 2: "two"}}})
        if name == "CommentsData":
            holder.add_comment("first", author="me")
            return holder.comments
        if name == "VisualParameters":
            vp = holder.add_default_visual_parameters()
            vp.colour = [10, 20, 30]
            return vp
        if name == "FilenameData":
            path = "fixture_file.txt"
            with open(path, "w", encoding="utf-8") as fh:
                fh.write("zero")
            return holder.add_file(path)
        if name == "UnknownData":
            raise Skip("UnknownData cannot be created through the API (Workspace.create_data picks the abstract "
                       "NumericData for the INVALID primitive type and fails with TypeError)")
        prim = getattr(data, name).primitive_type()
        values = {"DatetimeData": "2024-01-01T00:00:00", "MultiTextData": "multié"}.get(name)
        kw = {"association": "OBJECT", "entity_type": {"primitive_type": prim.name}}
        if values is not None:
            kw["values"] = values
        return holder.add_data({"d": kw})

    # ------------------------------------------------------------------ access
    def fetch(self, ws):
        if self.kind == "header":
            return ws
        if self.variant == "concatenated" and self.kind == "data":
            # concatenated data are loaded through their drillhole
            hole = ws.get_entity(self.aux["hole"])
            hole = hole[0] if hole else None
            if hole is None:
                return None
            found = [c for c in hole.children if getattr(c, "uid", None) == self.uid]
            if not found:  # loaded on demand, by name
                try:
                    names = list(hole.get_data_list())
                except Exception:  # pylint: disable=broad-except
                    names = []
                for n in names:
                    try:
                        found += [d for d in hole.get_data(n) if getattr(d, "uid", None) == self.uid]
                    except Exception:  # pylint: disable=broad-except
                        continue
            return found[0] if found else None
        ent = ws.get_entity(self.uid)
        ent = ent[0] if ent else None
        if ent is None:
            return None
        if self.kind in ("otype", "gtype", "dtype"):
            return ent.entity_type
        if self.kind == "cmap":
            return ent.entity_type.color_map
        if self.kind == "vmap":
            return ent.entity_type.value_map
        return ent

    def type_uid(self, ws):
        ent = ws.get_entity(self.uid)[0]
        return ent.entity_type.uid

    def raw(self, h5file, type_uid=None):
        """content of the node of the entity read with plain h5py (h5snap helpers): {"attrs": {...}, "datasets":
        {name: {"sha", "shape", ...}}} or None when the node does not exist"""
        import h5py
        from . import h5snap
        base = h5file[list(h5file.keys())[0]]

        def br(u):
            return "{" + str(u) + "}"
        try:
            if self.kind == "header":
                node = base
            elif self.variant == "concatenated":
                return None  # attribute records and value columns of the group's concatenated tables: no direct mapping
            elif self.kind in ("object", "group", "data"):
                node = base[{"object": "Objects", "group": "Groups", "data": "Data"}[self.kind]][br(self.uid)]
            elif self.kind in ("otype", "gtype", "dtype"):
                cont = {"otype": "Object types", "gtype": "Group types", "dtype": "Data types"}[self.kind]
                node = base["Types"][cont][br(type_uid)]
            elif self.kind == "pg":
                node = base["Objects"][br(self.aux["holder"])]["PropertyGroups"][br(self.uid)]
            elif self.kind in ("cmap", "vmap"):
                return None
            else:
                return None
        except KeyError:
            return None
        out = {"attrs": h5snap._attrs(node), "datasets": {}}  # pylint: disable=protected-access
        if self.kind != "header":
            for name in node:
                item = node.get(name, getlink=True)
                if isinstance(item, h5py.HardLink) and isinstance(node[name], h5py.Dataset):
                    out["datasets"][name] = h5snap._ds(node[name])  # pylint: disable=protected-access
        return out


# ----------------------------------------------------------------------------------------------------------------------
# domains
# json-stored dictionaries (metadata, options): non-finite numbers are valid values and round-trip (json writes NaN /
# Infinity and reads them back), so they are among the tokens
NONFINITE = [1.5, float("nan"), float("inf"), float("-inf")]
STRINGS = ["alpha", "bêta éè 漢字", "gamma_3"]
PLANNING = ["Default", "Ongoing", "Planned", "Completed", "No status"]
MAPPING = ["linear", "equal_area", "logarithmic", "cdf"]
CRS = [{"Code": "EPSG:4326", "Name": "WGS 84"}, {"Code": "EPSG:26917", "Name": "NAD83 / UTM zone 17N"}]


def _others(options, cur):
    """two alternatives to the current value; when the type has a single one, token 2 is the current value again
    (the domain is two-valued, like a bool)"""
    c = canon(cur)
    out = [o for o in options if not same(canon(o), c)]
    if not out:
        raise Skip("the current value is the only valid value of this attribute")
    if len(out) == 1:
        return [out[0], copy.deepcopy(cur)]
    return out[:2]


def _shift_array(arr, k):
    arr = np.array(arr, copy=True)
    if arr.dtype.names:
        out = arr.copy()
        for n in arr.dtype.names:
            if np.issubdtype(arr.dtype[n], np.floating):
                out[n] = arr[n] + 0.5 * k
            elif np.issubdtype(arr.dtype[n], np.integer):
                out[n] = arr[n]
        return out
    if arr.dtype == bool:
        out = arr.copy()
        out[(k - 1) % max(1, out.size)] ^= True
        return out
    if np.issubdtype(arr.dtype, np.floating):
        return arr + 0.5 * k
    if np.issubdtype(arr.dtype, np.integer):
        return (arr + k).astype(arr.dtype)
    if arr.dtype.kind in "US":
        return np.array([f"{x}_{k}é" for x in arr.tolist()])
    raise Skip(f"array of dtype {arr.dtype}")


def near(x):
    """a float that differs from x by a relative 4e-6 (4e-9 around zero): a different valid value that a tolerance
    comparison such as numpy.isclose (rtol 1e-5, atol 1e-8) takes for x.  The harness compares floats with a relative
    tolerance of 1e-9 (`same`), three orders of magnitude finer, so the two are distinct tokens."""
    x = float(x)
    return x + max(abs(x) * 4e-6, 4e-9)


def _generic(cur):  # pylint: disable=too-many-return-statements
    if isinstance(cur, (bool, np.bool_)):
        raise Skip("bool has a single alternative")  # handled by caller (K tokens: True/False only)
    if isinstance(cur, enum.Enum):
        members = list(type(cur))
        return _others(members, cur)
    if isinstance(cur, str):
        return _others(STRINGS, cur)
    if isinstance(cur, uuid.UUID):
        return [uuid.UUID(int=cur.int ^ 1), uuid.UUID(int=cur.int ^ 2)]
    if isinstance(cur, (int, np.integer)):
        return [int(cur) + 1, int(cur) + 5]
    if isinstance(cur, (float, np.floating)):
        # token 1: another value; token 2: a near-equal neighbour of the stored value (30.0 -> 30.00012)
        return [float(cur) + 0.5, near(cur)]
    if isinstance(cur, np.ndarray):
        return [_shift_array(cur, 1), _shift_array(cur, 2)]
    if isinstance(cur, dict):
        return [{**copy.deepcopy(cur), "extra_1": "xé"}, {**copy.deepcopy(cur), "extra_2": {"deep": list(NONFINITE)}}]
    if isinstance(cur, list) and cur and all(isinstance(x, float) for x in cur):
        return [[x + 0.5 for x in cur], [x * 2 + 1.25 for x in cur]]
    raise Skip(f"no generic domain for a value of type {type(cur).__name__}")


def domain(fx: Fixture, ent, attr, cur):  # pylint: disable=too-many-return-statements,too-many-branches,too-many-statements
    """-> (values for tokens 1 and 2, value for token 0).  Token 0 is normally the current value; for attributes whose
    current value is None a concrete token-0 value is returned, which the replay assigns while building the fixture."""
    name = fx.cls
    base = cur
    # ---- attributes that a class hard-wires in its constructor: no valid NEW value exists
    if name == "RootGroup" and attr in ("name", "allow_move", "allow_delete", "allow_rename"):
        raise Skip("hard-wired on the root group ('Hard wired attributes', groups/root.py:37-42): every reader shows the "
                   "fixed value, so there is no valid new value (the setter nevertheless accepts one and writes it)")
    if name in ("CommentsData", "VisualParameters") and attr == "name":
        raise Skip("the class of this data is recognised by its name ('UserComments' / 'Visual Parameters', "
                   "workspace/workspace.py:411-426): another name makes every reader load it as plain TextData, so there "
                   "is no valid new value")
    if fx.variant == "concatenated" and fx.kind == "data" and attr == "name":
        raise Skip("renaming a concatenated data set is an operation on the group's tables (label, 'Property:<name>' key): "
                   "decided by C04 (open finding asbuilt:RenameKeepsLabel)")
    if name == "FilenameData" and attr == "public":
        raise Skip("hard-wired to False in the constructor (data/filename_data.py:33): no valid new value (the setter "
                   "nevertheless accepts True and writes it)")
    # ---- per-attribute overrides
    if isinstance(cur, (bool, np.bool_)) or (attr in FLAGS and cur in (0, 1)):
        # two-valued domain: token 1 = negation, token 2 = the original value given as the other spelling (int 0/1)
        return [not bool(cur), bool(cur)], base
    if attr in ("u_count", "v_count", "w_count") and name == "Octree":
        opts = [2, 4, 8, 16]
        return _others(opts, cur), base
    if attr == "planning":
        return _others(PLANNING, cur), base
    if attr == "mapping":
        return _others(MAPPING, cur), base
    if name == "GeoImage" and attr in ("dip", "rotation"):
        # recomputed from the corner vertices by trigonometry: no near-equal neighbour (it would sit inside the
        # rounding of the round trip)
        return [float(cur) + 0.5, float(cur) * 2 + 1.25], base
    if name == "Grid2D" and attr == "dip":
        # 90 is a valid dip and switches the coupled `vertical` flag on (grid2d.py:240-252)
        if bool(getattr(ent, "vertical", False)) or float(cur) == 90.0:
            raise Skip("the fixture grid is vertical")
        return [90.0, near(cur)], base
    if attr == "coordinate_reference_system":
        return [copy.deepcopy(CRS[0]), copy.deepcopy(CRS[1])], base
    if attr == "metadata":
        if isinstance(cur, dict) and "EM Dataset" in cur:
            a, b = copy.deepcopy(cur), copy.deepcopy(cur)
            a["EM Dataset"]["Extra"] = "xé"
            b["EM Dataset"]["Extra"] = list(NONFINITE)
            return [a, b], base
        # the setter UPDATES the stored dictionary (entity.py:238-240, documented), so the values of the domain share
        # their keys: then updating and replacing coincide
        if isinstance(cur, dict) and cur:
            k0 = sorted(cur)[0]
            return [{**copy.deepcopy(cur), k0: "vé"}, {**copy.deepcopy(cur), k0: list(NONFINITE)}], base
        return [{"key": "vé"}, {"key": list(NONFINITE)}], {"key": "zero"}
    if attr == "options":
        if not isinstance(cur, dict) or not cur:
            return [{"title": "t1", "n": 2}, {"title": "t2é", "m": list(NONFINITE)}], {"title": "t0", "n": 1}
        return _generic(cur), base
    if attr == "contributors":
        return [np.array(["ann", "béa"]), np.array(["carl"])], base
    if attr == "distance_unit":
        return _others(["feet", "meter", "km"], cur), base
    if attr == "ga_version":
        return _others(["4.2", "4.5", "1"], cur), base
    if attr == "version" and fx.kind == "header":
        return _others([2.0, 2.1, 1.0], cur), base
    if attr == "cells":
        arr = np.asarray(cur)
        if arr.ndim == 2 and arr.shape[1] in (2, 3):
            n = int(arr.max()) + 1
            return [np.roll(arr, 1, axis=0).astype("uint32"), ((arr + 1) % n).astype("uint32")], base
    if attr == "parts":
        # parts are recomputed from the cells: a part needs at least two consecutive vertices to exist
        arr = np.asarray(cur)
        if name in ("CurrentElectrode", "PotentialElectrode"):
            raise Skip("another partition changes the number of cells, to which the mandatory A-B Cell ID data is tied (C07)")
        if len(arr) < 5 or len(set(arr.tolist())) != 1:
            raise Skip("fixture too small for three valid partitions")
        one, two = arr.copy(), arr.copy()
        one[2:] += 1
        two[3:] += 1
        return [one, two], base
    if attr == "octree_cells":
        arr = np.asarray(cur)
        a = arr.copy()
        a["NCells"] = arr["NCells"][::-1].copy() if len(arr) > 1 else arr["NCells"]
        a = np.roll(arr, 1)
        b = np.roll(arr, 2) if len(arr) > 2 else arr[::-1].copy()
        return [a, b], base
    if attr == "layers":
        arr = np.asarray(cur, dtype=float)
        out = []
        for k in (1, 2):
            c = arr.copy()
            c[:, 2] = arr[:, 2] - 0.5 * k
            out.append(c)
        return out, base
    if attr == "prisms":
        arr = np.asarray(cur, dtype=float)
        out = []
        for k in (1, 2):
            c = arr.copy()
            c[:, :3] = arr[:, :3] + 0.5 * k
            out.append(c)
        return out, base
    if attr == "surveys":
        arr = np.asarray(cur, dtype=float)
        a, b = arr.copy(), arr.copy()
        a[:, 1] += 0.5
        b[:, 2] += 1.5
        return [a, b], base
    if attr == "end_of_hole":
        # None is an accepted value (drillhole.py:148-155 "float | int | None")
        c = 8.0 if cur is None else float(cur)
        return [c + 0.5, None], (c if cur is None else base)
    if attr in ("u_cell_delimiters", "v_cell_delimiters", "z_cell_delimiters"):
        arr = np.asarray(cur, dtype=float)
        return [arr * 2.0, arr * 0.5 + np.arange(len(arr)) * 0.25], base
    if attr in ("origin", "collar"):
        vals = [float(cur[k]) for k in cur.dtype.names] if getattr(cur, "dtype", None) is not None and cur.dtype.names \
            else [float(x) for x in np.asarray(cur).ravel()]
        # token 1: the northing moved by half a metre (relative 1e-7 of a UTM coordinate: near-equal in every field);
        # token 2: far away
        return [[vals[0], vals[1] + 0.5, vals[2]], [v * 2 + 1.25 for v in vals]], base
    if attr == "color_map":
        def cmap(k):
            return np.core.records.fromarrays(
                np.array([[0.0, 1.0 + k], [k, 255], [10, 20 + k], [30, 40], [255, 255]]),
                names=["Value", "Red", "Green", "Blue", "Alpha"])
        # a colour map is its table AND its name ("File name" attribute of the dataset); the new maps have as many
        # entries as the stored one and other names
        return [{"name": "survey_1.TBL", "values": cmap(1)}, {"name": "survey_2é.TBL", "values": cmap(2)}], base
    if fx.kind == "cmap" and attr == "values":
        # NB the getter returns the table transposed (5, n); the setter wants (n, 5)
        tab = np.asarray(cur, dtype=float).T
        return [tab + np.array([0.5, 0, 0, 0, 0]), tab + np.array([0.25, 1, 0, 0, 0])], base
    if fx.kind == "vmap" and attr == "map":
        return [{0: "Unknown", 1: "unoé", 2: "dos"}, {0: "Unknown", 1: "ein", 2: "zwei", 3: "drei"}], base
    if attr == "value_map":
        if fx.variant != "REFERENCED":
            raise Skip("value_map is meaningful on a REFERENCED type only (exercised on DataType[REFERENCED])")
        return [{0: "Unknown", 1: "unoé", 2: "dos"}, {0: "Unknown", 1: "ein", 2: "zwei", 3: "drei"}], base
    if attr == "primitive_type":
        raise Skip("changing the primitive type of a stored type would invalidate the data using it: no valid new value")
    if attr == "number_of_bins":
        # "It can be None if no histogram is used" (data_type.py:230-247)
        c = 50 if cur is None else int(cur)
        return [c + 1, None], (c if cur is None else base)
    if attr in ("units", "description") and cur is None:
        return STRINGS[:2], "zero"
    if attr == "description" and fx.kind in ("otype", "gtype", "dtype"):
        # "str | None" (entity_type.py:134-150)
        return [_others(STRINGS, cur)[0], None], base
    if attr == "association" and fx.kind == "data":
        from geoh5py.data import DataAssociationEnum as E
        if cur is E.OBJECT:
            raise Skip("OBJECT-associated data: another association would change the expected value count")
        # the holder is a closed curve with as many cells as vertices: VERTEX <-> CELL keeps the value count
        # (FACE / OBJECT would not be valid for these values)
        return _others([E.VERTEX, E.CELL], cur), base
    if attr == "association" and fx.kind == "pg":
        from geoh5py.data import DataAssociationEnum as E
        return _others([E.VERTEX, E.CELL, E.OBJECT], cur), base
    if attr == "property_group_type":
        return _others(["Multi-element", "3D vector", "Dip direction & dip", "Strike & dip"], cur), base
    if attr == "properties":
        raise Skip("the setter refuses to replace the properties of an existing group by design (add_properties / "
                   "remove_properties are the operations; C05/C12 cover them)")
    if attr == "visual_parameters":
        raise Skip("entity-valued handle to the VisualParameters child; the child itself is exercised as a data class")
    if attr == "depths":
        raise Skip("Drillhole.depths creates / replaces a DEPTH data child (drillhole data layout: C04/C07)")
    if attr == "colour":
        return [[1, 2, 3], [200, 100, 50]], ([10, 20, 30] if cur is None else base)
    if attr == "values" and name == "CommentsData":
        def com(i):
            return {"Author": f"a{i}é", "Date": f"2024-01-0{i}T00:00:00", "Text": f"text {i}"}
        return [list(cur or []) + [com(1)], [com(2)]], base
    if attr == "values" and name == "VisualParameters":
        def xml(i):
            return f'<IParameterList Version="1.0"><Colour>{1000 + i}</Colour></IParameterList>'
        return [xml(1), xml(2)], base
    if attr == "values" and name == "FilenameData":
        return [b"one-\xc3\xa9", b"two"], base
    if attr == "file_name":
        return ["renamed_1.txt", "renamed_2é.txt"], base
    if attr == "values" and name == "DatetimeData":
        return ["2024-02-02T00:00:00", "2025-03-03T12:00:00"], base
    if attr == "values" and name == "ReferencedData":
        arr = np.asarray(cur)
        return [arr[::-1].copy(), np.where(arr == 1, 2, 1).astype(arr.dtype)], base
    if attr == "values" and cur is None and "values" not in fx.kwargs:
        raise Skip("no stored values to derive a domain from")
    if attr == "image":
        from PIL import Image
        arr = np.arange(4 * 5 * 3, dtype="uint8").reshape(4, 5, 3)
        return [Image.fromarray(arr[::-1].copy()), Image.fromarray(arr // 2)], base
    if attr == "tag":
        raise Skip("GeoImage.tag is an in-memory copy of the TIFF tags of the image used by the TIFF export; the format "
                   "has no place for it")
    if attr == "last_focus":
        return ["Focus-1", "focus é"], base
    if attr == "ab_cell_id":
        raise Skip("ab_cell_id is a ReferencedData child (entity-valued; its values are exercised as ReferencedData)")
    # ---- EM survey metadata views
    if attr == "channels":
        # non-integral floats only: json turns 1.0 into 1 and the setter then refuses its own getter's value
        return [[1.5, 2.5, 3.5], [10.25, 20.5]], (list(cur) if cur else [0.5, 0.75])
    if attr in ("unit", "input_type"):
        try:
            opts = list((ent.default_units if attr == "unit" else ent.default_input_types) or [])
        except Exception as exc:  # pylint: disable=broad-except
            raise Skip(f"the list of valid values cannot be read (default_{attr}s raises {type(exc).__name__}: {exc}); "
                       "the setter raises the same error for every value") from exc
        return _others(opts, cur), base
    if attr == "loop_radius":
        c = 1.5 if cur is None else float(cur)
        return [c + 0.5, c * 2 + 1.25], c
    if attr in ("crossline_offset", "inline_offset", "vertical_offset", "pitch", "roll", "yaw"):
        c = 0.25 if cur is None else cur
        if isinstance(c, uuid.UUID):
            raise Skip("bound to a property")
        return [float(c) + 0.5, uuid.UUID(str(fx.aux["floatdata"]))], float(c)
    if attr == "relative_to_bearing":
        c = False if cur is None else bool(cur)
        return [not c, c], c
    if attr == "timing_mark":
        c = 0.25 if cur is None else float(cur)
        return [c + 0.5, c * 2 + 1.25], c
    if attr == "waveform":
        def wf(k):
            return np.array([[0.25, 0.5], [1.25 + k, 1.5], [2.25 + k, 0.75]])
        return [wf(1), wf(2)], (wf(0) if cur is None else base)
    if attr == "tx_id_property":
        raise Skip("tx_id_property creates / links a ReferencedData child on both survey parts (C19 covers the linkage)")
    if attr in ("receivers", "transmitters", "base_stations"):
        key = "rx" if attr == "receivers" else "tx"  # tx = transmitters or base stations (the complement)
        if attr == "transmitters" and fx.cls.startswith("Tipper"):
            raise Skip("tipper surveys have no transmitters")
        if cur is None or f"{key}1" not in fx.aux:
            raise Skip(f"{attr}: no current partner of that role on this class")
        if canon(cur) == ("ref", str(fx.uid)):
            raise Skip(f"{attr} of this class is the object itself")
        return [Ref(fx.aux[f"{key}1"]), Ref(cur.uid)], Ref(cur.uid)
    if attr in ("current_electrodes", "potential_electrodes"):
        key = "cur" if attr == "current_electrodes" else "pot"
        if cur is None:
            raise Skip(f"{attr}: no current partner")
        if canon(cur) == ("ref", str(fx.uid)):
            raise Skip(f"{attr} of this class is the object itself")
        if f"{key}1" not in fx.aux:
            raise Skip("fixture without spare partners")
        return [Ref(fx.aux[f"{key}1"]), Ref(cur.uid)], Ref(cur.uid)
    if cur is None and attr in fx.kwargs and fx.kwargs[attr] is not None:
        # the value given at creation does not show: still exercise the attribute from values of that type
        given = fx.kwargs[attr]
        given = np.asarray(given, dtype=float) if isinstance(given, list) else given
        return _generic(given), base
    if cur is None:
        raise Skip("current value is None and no override gives a domain")
    if _is_entity(cur):
        raise Skip(f"entity-valued attribute ({type(cur).__name__}) without an override")
    return _generic(cur), base


def assign(cls_name, ent, attr, value, inplace=False):
    """The assignment `ent.attr = value` in one of two styles, plus the class-specific preliminaries a valid assignment
    needs.  inplace: for array values whose getter hands out an array of the same shape and dtype, edit THAT array in
    place and assign it back (`v = data.values; v[:] = ...; data.values = v`) - as valid as assigning a fresh array.
    Returns the style used."""
    if cls_name == "Grid2D" and attr == "dip" and float(value) != 90.0 and bool(ent.vertical):
        ent.vertical = False  # a vertical grid has dip 90 by definition: leave that state first (grid2d.py:232-236)
    if inplace and isinstance(value, np.ndarray):
        try:
            cur = getattr(ent, attr)
        except Exception:  # pylint: disable=broad-except
            cur = None
        if isinstance(cur, np.ndarray) and cur.shape == value.shape and cur.dtype == value.dtype and cur.flags.writeable:
            cur[...] = value
            setattr(ent, attr, cur)
            return "inplace"
    setattr(ent, attr, value)
    return "fresh"


def materialise(value, ws):
    """Fresh copy of a domain value, ready to be assigned in workspace ws (setters may mutate their argument)."""
    if isinstance(value, Ref):
        return value.resolve(ws)
    return copy.deepcopy(value)
