"""Verification harness for geoh5py: TLC runner, state-graph export, replay, evidence."""
