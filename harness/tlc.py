"""Run TLC and parse what it prints.

Export convention used by every spec in /verif/spec:
  <<"ST", fp1, fp2, "<json of the VIEW>">>            one line per distinct state   (INVARIANT ExportState)
  <<"TR", fp1, fp2, fp1', fp2', "<json of last'>">>   one line per generated successor (ACTION_CONSTRAINT ExportTrans)
  <<"CASE", "<json>">>                                one line per enumerated configuration (function-style specs)
Export runs use -workers 1 so that lines are atomic.
"""
from __future__ import annotations

import json
import os
import re
import shutil
import subprocess
import tempfile
import time
from dataclasses import dataclass, field
from pathlib import Path

VERIF = Path(__file__).resolve().parent.parent
SPEC = VERIF / "spec"
JAR = "/opt/veriftools/tla/tla2tools.jar"


class MachineryError(Exception):
    """TLC crashed, spec does not parse, export is inconsistent: exit code 2, never a verdict."""


@dataclass
class TLCResult:
    ok: bool
    generated: int = 0
    distinct: int = 0
    depth: int = 0
    wall_s: float = 0.0
    violated: list = field(default_factory=list)  # names of violated invariants / properties
    lines: list = field(default_factory=list)  # exported lines (parsed tuples)
    coverage: dict = field(default_factory=dict)  # action name -> (distinct, total)
    raw_tail: str = ""
    cmd: str = ""


_LINE = re.compile(r'^<<"([A-Z]+)", (.*)>>$')
_STATS = re.compile(r"(\d+) states generated, (\d+) distinct states found")
_SIMSTATS = re.compile(r"The number of states generated: (\d+)")
_DEPTH = re.compile(r"The depth of the complete state graph search is (\d+)")
_COV = re.compile(r"^<(\w+) line \d+, col \d+ to line \d+, col \d+ of module (\w+)>: (\d+):(\d+)")
_VIOL = re.compile(r"Error: Invariant (\w+) is violated|Error: Action property (\w+) is violated|"
                   r"Error: Temporal properties were violated")


def _parse_export(rest: str):
    """rest = 'n, n, "json"' ; the last element is a TLA+-escaped string holding JSON."""
    idx = rest.find('"')
    nums = [int(x) for x in rest[:idx].replace(",", " ").split()] if idx > 0 else []
    payload = rest[idx:] if idx >= 0 else ""
    if payload:
        text = json.loads(payload)  # TLA+ escaping of \" and \\ is JSON compatible
        obj = json.loads(text)
    else:
        obj = None
    return nums, obj


def run_tlc(*args, **kwargs) -> "TLCResult":
    """Run TLC; a run that ends without any verdict (JVM killed from outside) is retried once."""
    try:
        return _run_tlc(*args, **kwargs)
    except MachineryError as exc:
        if "did not finish cleanly" not in str(exc):
            raise
        return _run_tlc(*args, **kwargs)


def _run_tlc(spec_dir: str | Path, module: str, cfg: str, workers: int = 1, timeout: int = 3600,
            simulate: str | None = None, depth: int | None = None, coverage: bool = False,
            env_extra: dict | None = None, heap: str = "8g", keep_lines: bool = True,
            seed: int | None = None, dfid: int | None = None) -> TLCResult:
    spec_dir = Path(spec_dir)
    if not spec_dir.is_absolute():
        spec_dir = SPEC / spec_dir
    meta = tempfile.mkdtemp(prefix="tlcmeta_")
    cmd = ["java", f"-Xmx{heap}", "-XX:+UseParallelGC", f"-Djava.io.tmpdir={meta}", "-cp", JAR + ":" + str(SPEC / "lib"),
           "tlc2.TLC", "-workers", str(workers), "-metadir", meta, "-noGenerateSpecTE",
           "-config", cfg]
    # CommunityModules live on the wrapper's classpath; find them the same way `tlc` does.
    cm = "/opt/veriftools/tla/CommunityModules-deps.jar"
    if os.path.exists(cm):
        cmd[5] = cmd[5] + ":" + cm
    if simulate:
        cmd += ["-simulate", simulate]
    if depth is not None:
        cmd += ["-depth", str(depth)]
    if coverage:
        cmd += ["-coverage", "1"]
    if seed is not None:
        cmd += ["-seed", str(seed)]
    if dfid is not None:
        cmd += ["-dfid", str(dfid)]
    cmd += [module]
    env = dict(os.environ)
    env.update(env_extra or {})
    t0 = time.time()
    res = TLCResult(ok=False, cmd=" ".join(cmd))
    try:
        proc = subprocess.run(cmd, cwd=spec_dir, env=env, capture_output=True, text=True,
                              timeout=timeout, errors="replace")
    except subprocess.TimeoutExpired as exc:
        shutil.rmtree(meta, ignore_errors=True)
        raise MachineryError(f"TLC timed out after {timeout}s: {' '.join(cmd)}") from exc
    finally:
        pass
    shutil.rmtree(meta, ignore_errors=True)
    res.wall_s = time.time() - t0
    out = proc.stdout
    res.raw_tail = out[-4000:] + proc.stderr[-2000:]
    for line in out.splitlines():
        m = _LINE.match(line)
        if m:
            if keep_lines:
                try:
                    nums, obj = _parse_export(m.group(2))
                except Exception as exc:  # pylint: disable=broad-except
                    raise MachineryError(f"cannot parse export line: {line[:300]}") from exc
                res.lines.append((m.group(1), nums, obj))
            continue
        m = _STATS.search(line)
        if m:
            res.generated, res.distinct = int(m.group(1)), int(m.group(2))
            continue
        m = _SIMSTATS.search(line)
        if m:
            res.generated = int(m.group(1))
            continue
        m = _DEPTH.search(line)
        if m:
            res.depth = int(m.group(1))
            continue
        m = _COV.match(line)
        if m and m.group(2) == module:
            res.coverage[m.group(1)] = (int(m.group(3)), int(m.group(4)))
            continue
        m = _VIOL.search(line)
        if m:
            res.violated.append(m.group(1) or m.group(2) or "temporal")
    finished = "Model checking completed. No error has been found." in out or \
               (simulate and not res.violated and "Error:" not in out)
    if not finished and not res.violated:
        raise MachineryError("TLC did not finish cleanly:\n" + res.raw_tail)
    res.ok = not res.violated
    return res


@dataclass
class Graph:
    states: dict  # key -> json state
    edges: list  # (src key, dst key, label json)
    init: list


def build_graph(lines) -> Graph:
    states: dict = {}
    edges = []
    seen_edge = set()
    for tag, nums, obj in lines:
        if tag == "ST":
            key = (nums[0], nums[1])
            if key in states and states[key] != obj:
                raise MachineryError(f"fingerprint collision on {key}")
            states[key] = obj
        elif tag == "TR":
            src, dst = (nums[0], nums[1]), (nums[2], nums[3])
            ek = (src, dst, json.dumps(obj, sort_keys=True))
            if ek in seen_edge:
                continue
            seen_edge.add(ek)
            edges.append((src, dst, obj))
    targets_missing = [e for e in edges if e[1] not in states or e[0] not in states]
    # successors cut off by a CONSTRAINT are printed as TR but never become ST: drop them
    edges = [e for e in edges if e[0] in states and e[1] in states]
    init = [k for k, v in states.items() if isinstance(v, dict) and v.get("_init")] or []
    g = Graph(states=states, edges=edges, init=init)
    g.dropped = len(targets_missing)  # type: ignore[attr-defined]
    return g
